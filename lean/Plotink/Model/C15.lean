/-! # C15 — firmware version gating (model and spec)

Hand-written executable model, statement by statement, of

* `packaging.version.parse` / `Version.__ge__` restricted to release-only versions
  (`parseVersion`, `versionKey`, `tupleLe`, `versionGe`) — ONE definition, used by both serial layers;
* `plotink/ebb3_serial.py`: `EBB3.record_error`, `disconnect`, `parse_version`, `min_version`,
  `query` (as used by `query_nickname`), `query_nickname`, `connect`, and the guard that opens every
  request method;
* `plotink/ebb_serial.py`: `query`, `command`, `min_version`, `query_nickname`, `write_nickname`,
  `reboot`; `plotink/ebb_motion.py`: `queryVoltage`, `servo_timeout`.

A serial device is a *script* (DESIGN §5d): outcomes of successive `serial.Serial(...)` calls, of successive
`readline` calls and of successive `write` calls; an exhausted list means "opens / silence / ok" from then on.
Python exceptions that the code can raise on its own are explicit (`Except PyExc`).

The *Spec* side (`vle`, `Identifies`, `Rejected`, `Reports`) is written from the property statement.
Core Lean only. -/
namespace Plotink
namespace C15

abbrev Str := List Char

/-! ## Python `str` primitives on ASCII text -/

/-- `str.isspace` on one ASCII character (`' '`, `\t\n\v\f\r`, and the separators `\x1c..\x1f`) -/
def isWs (c : Char) : Bool :=
  c.toNat == 32 || (9 ≤ c.toNat && c.toNat ≤ 13) || (28 ≤ c.toNat && c.toNat ≤ 31)

def lstrip (s : Str) : Str := s.dropWhile isWs
def rstrip (s : Str) : Str := (s.reverse.dropWhile isWs).reverse
/-- `s.strip()` -/
def strip (s : Str) : Str := rstrip (lstrip s)

/-- `s.isspace()` -/
def isSpace (s : Str) : Bool := !s.isEmpty && s.all isWs

/-- `needle in s` -/
def isInfix (needle : Str) : Str → Bool
  | [] => needle.isEmpty
  | c :: t => needle.isPrefixOf (c :: t) || isInfix needle t

/-- `s.split(needle, 1)[1]` when the needle occurs (the text after its first occurrence), else `none`
(the split has a single element) -/
def afterFirst (needle : Str) : Str → Option Str
  | [] => if needle.isEmpty then some [] else none
  | c :: t => if needle.isPrefixOf (c :: t) then some ((c :: t).drop needle.length) else afterFirst needle t

/-- `s.split(sep)` for a one-character separator -/
def splitOn (sep : Char) : Str → List Str
  | [] => [[]]
  | c :: t =>
    if c = sep then [] :: splitOn sep t
    else match splitOn sep t with
      | h :: r => (c :: h) :: r
      | [] => [[c]]

def lower (s : Str) : Str := s.map Char.toLower

/-! ## `packaging.version` on release-only versions -/

/-- one release segment: `[0-9]+`, value by `int()` -/
def parseNat (s : Str) : Option Nat :=
  if !s.isEmpty && s.all Char.isDigit then some (Nat.ofDigitChars 10 s 0) else none

def parseRelease (s : Str) : Option (List Nat) := (splitOn '.' s).mapM parseNat

/-- the optional leading `v` of the version pattern (`re.IGNORECASE`) -/
def dropV : Str → Str
  | [] => []
  | c :: r => if c = 'v' ∨ c = 'V' then r else c :: r

/-- `packaging.version.parse(s)._release` for a release-only version string
(`\s* v? [0-9]+(\.[0-9]+)* \s*`); `none` = anything else (an `InvalidVersion`, or a version with
epoch / pre / post / dev / local parts, which this model does not cover). -/
def parseVersion (s : Str) : Option (List Nat) := parseRelease (dropV (strip s))

/-- rendering of a release: decimal components joined by dots -/
def render : List Nat → Str
  | [] => []
  | [a] => (Nat.repr a).toList
  | a :: b :: r => (Nat.repr a).toList ++ '.' :: render (b :: r)

/-- `_cmpkey`: the release with trailing zeros removed -/
def versionKey : List Nat → List Nat
  | [] => []
  | a :: r => match versionKey r with
    | [] => if a = 0 then [] else [a]
    | k => a :: k

/-- Python's `tuple.__le__` on tuples of ints -/
def tupleLe : List Nat → List Nat → Bool
  | [], _ => true
  | _ :: _, [] => false
  | a :: as, b :: bs => a < b || (a == b && tupleLe as bs)

/-- `Version(a) >= Version(b)` — the comparison both layers perform -/
def versionGe (a b : List Nat) : Bool := tupleLe (versionKey b) (versionKey a)

/-- **Spec**: numeric order, component by component, a missing component counting as 0 -/
def vle : List Nat → List Nat → Bool
  | [], _ => true
  | a :: as, [] => a == 0 && vle as []
  | a :: as, b :: bs => a < b || (a == b && vle as bs)

/-! ## Device scripts -/

inductive Rd where
  | line (s : Str)      -- `readline` returns these bytes (ASCII)
  | empty               -- `readline` times out (`b''`)
  | raise               -- `readline` raises `SerialException`
  deriving Repr, DecidableEq

inductive Wr where
  | ok
  | raise               -- `write` raises `SerialException`; nothing reaches the device
  deriving Repr, DecidableEq

structure Io where
  opens : List Bool     -- outcomes of successive `serial.Serial(...)` calls (`false` = raises)
  reads : List Rd
  writes : List Wr
  written : List Str    -- what reached the device so far, in order
  deriving Repr, DecidableEq

/-- `serial.Serial(name, timeout=1.0)`; `true` = opened -/
def Io.open (io : Io) : Bool × Io :=
  match io.opens with
  | [] => (true, io)
  | b :: r => (b, { io with opens := r })

/-- `port.write(b)`; first component `true` = raised -/
def Io.write (io : Io) (b : Str) : Bool × Io :=
  match io.writes with
  | [] => (false, { io with written := io.written ++ [b] })
  | .ok :: r => (false, { io with writes := r, written := io.written ++ [b] })
  | .raise :: r => (true, { io with writes := r })

/-- `port.readline().decode('ascii')`; `none` = raised -/
def Io.read (io : Io) : Option Str × Io :=
  match io.reads with
  | [] => (some [], io)
  | .line s :: r => (some s, { io with reads := r })
  | .empty :: r => (some [], { io with reads := r })
  | .raise :: r => (none, { io with reads := r })

inductive PyExc where
  | typeError           -- `None >= Version`, `'Err:' in b''`
  | valueError          -- `int('x')`
  | serialException     -- propagates out of `connect` (CU exchange is outside the `try`)
  | versionSyntax       -- version text that is not release-only: outside this model
  deriving Repr, DecidableEq

/-- decidable equality of results (own name, so that it cannot clash with another module's derived instance) -/
instance decEqRes {α : Type} [DecidableEq α] : DecidableEq (Except PyExc α)
  | .ok a, .ok b => if h : a = b then isTrue (by rw [h]) else isFalse (fun h' => h (Except.ok.inj h'))
  | .error a, .error b => if h : a = b then isTrue (by rw [h]) else isFalse (fun h' => h (Except.error.inj h'))
  | .ok _, .error _ => isFalse (fun h => by cases h)
  | .error _, .ok _ => isFalse (fun h => by cases h)

/-! ## Parameters (every literal the property depends on; re-read from the source by the harness) -/

structure Params where
  minVersion : Str          -- `EBB3.MIN_VERSION_STRING`
  retry3 : Nat              -- retries in `EBB3.query` (25)
  retryL : Nat              -- retries in `ebb_serial.query` / `command` (100)
  noOk : List Str           -- queries without a trailing OK line in `ebb_serial.query`
  decodeRetry : Bool        -- does the retry loop of `ebb_serial.query` decode? (DESIGN §9 F5: not in the pinned tree)
  gateNickQuery : Str       -- "2.5.5"
  gateNickWrite : Str       -- "2.5.5"
  gateReboot : Str          -- "2.5.5"
  gateVoltage : Str         -- "2.2.3"
  gateServo : Str           -- "2.6.0"
  deriving Repr

def Params.std : Params where
  minVersion := "3.0.2".toList
  retry3 := 25
  retryL := 100
  noOk := ["a", "i", "mr", "pi", "qm", "qg", "v"].map String.toList
  decodeRetry := false
  gateNickQuery := "2.5.5".toList
  gateNickWrite := "2.5.5".toList
  gateReboot := "2.5.5".toList
  gateVoltage := "2.2.3".toList
  gateServo := "2.6.0".toList

def fwv : Str := "Firmware Version ".toList
def ebbTag : Str := "EBB".toList
def vProbe : Str := "v\r".toList
def cuCmd : Str := "CU,10,1\r".toList

/-- the version text of a reply line: what both layers extract with `split("Firmware Version ", 1)[1].strip()` -/
def versionText (reply : Str) : Option Str := (afterFirst fwv reply).map strip

/-- the release the reply reports, if it has the `… Firmware Version a.b.c` form -/
def versionOf (reply : Str) : Option (List Nat) := (versionText reply).bind parseVersion

/-! ## EBB3 layer -/

structure St where
  port : Bool                         -- `self.port is not None`
  portName : Option Str
  version : Option Str
  vparsed : Option (List Nat)         -- `self.version_parsed`
  name : Option Str
  err : Option Str
  caller : Option Str
  deriving Repr, DecidableEq

def St.fresh : St := ⟨false, none, none, none, none, none, none⟩

/-- `record_error`: only the first error is kept -/
def recordError (st : St) (msg : Str) : St :=
  match st.err with
  | none => { st with err := some msg }
  | some _ => st

/-- `disconnect` -/
def disconnect (st : St) : St := { st with port := false }

/-- first statement of every request method (`command`, `query`, `query_nickname`, …) -/
def blocked (st : St) : Bool := !st.port || st.err.isSome

structure Out (α : Type) where
  st : St
  io : Io
  res : Except PyExc α

/-- result of the `try:` block of `connect` -/
structure Hs where
  verified : Bool
  raised : Bool
  opened : Bool
  sv : Str            -- `str_version` (last assignment)
  io : Io

/-- a probe reply verifies the board: `if str_version: if "EBB" in str_version:` -/
def isEbb (s : Str) : Bool := !s.isEmpty && isInfix ebbTag s

/-- the `try:` block of `connect`: open, then at most two `v\r` probes -/
def handshake (io : Io) : Hs :=
  match io.open with
  | (false, io0) => ⟨false, true, false, [], io0⟩
  | (true, io0) =>
    match io0.write vProbe with
    | (true, io1) => ⟨false, true, true, [], io1⟩
    | (false, io1) =>
      match io1.read with
      | (none, io2) => ⟨false, true, true, [], io2⟩
      | (some l, io2) =>
        let s := strip l
        if isEbb s then ⟨true, false, true, s, io2⟩
        else
          match io2.write vProbe with
          | (true, io3) => ⟨false, true, true, s, io3⟩
          | (false, io3) =>
            match io3.read with
            | (none, io4) => ⟨false, true, true, s, io4⟩
            | (some l2, io4) =>
              let s2 := strip l2
              ⟨isEbb s2, false, true, s2, io4⟩

/-- `parse_version`; `none` = `parse` raised `InvalidVersion` or produced a non-release version -/
def parseVersionStmt (st : St) (sv : Str) : Option St :=
  match versionText sv with
  | none => some st
  | some t => match parseVersion t with
    | none => none
    | some v => some { st with version := some t, vparsed := some v }

/-- `EBB3.min_version(version_string)` -/
def minVersion3 (st : St) (thr : Str) : Except PyExc Bool :=
  match parseVersion thr with
  | none => .error .versionSyntax
  | some t => match st.vparsed with
    | none => .error .typeError
    | some v => .ok (versionGe v t)

def sAppend (a : String) (b : Str) : Str := a.toList ++ b

def msgLocate (given : Option Str) : Str :=
  match given with
  | none => "Unable to locate device on USB".toList
  | some g => "Unable to locate ".toList ++ g ++ " on USB".toList
def msgTest (pn : Str) : Str := "Error testing USB connection (port name: ".toList ++ pn ++ ")".toList
def msgFail (pn : Str) : Str := "Failed to connect via USB (port name: ".toList ++ pn ++ ")".toList
def msgOld (ver : Option Str) (minv : Str) : Str :=
  "Firmware version (".toList ++ (match ver with | some v => v | none => "None".toList)
    ++ ") not supported.\nFirmware ".toList ++ minv
    ++ " or newer is required.\nVisit https://bantam.tools/ndfw to update your firmware.".toList

/-- the retry loop shared by `EBB3.query`/`command`: `while len(response) == 0 and n < limit` -/
def retry3 : Nat → Str → Io → Option Str × Io
  | 0, r, io => (some r, io)
  | n + 1, r, io =>
    if !r.isEmpty then (some r, io)
    else match io.read with
      | (none, io') => (none, io')
      | (some l, io') => retry3 n (strip l) io'

def errTag : Str := "Err:".toList

/-- `EBB3.query('QT')` (the query name is the two letters `QT`); returns the reply payload or `None` -/
def queryQT (P : Params) (st : St) (io : Io) : St × Io × Option Str :=
  if blocked st then (st, io, none) else
  let q := "QT".toList
  let commErr := "USB communication error after query: ".toList ++ q
  match io.write (q ++ ['\r']) with
  | (true, io1) => (recordError st commErr, io1, none)
  | (false, io1) =>
    match io1.read with
    | (none, io2) => (recordError st commErr, io2, none)
    | (some l, io2) =>
      match retry3 P.retry3 (strip l) io2 with
      | (none, io3) => (recordError st commErr, io3, none)
      | (some resp, io3) =>
        if isInfix errTag resp || !q.isPrefixOf resp then
          let msg := if !resp.isEmpty then
              "\nUnexpected response from EBB.    Query: ".toList ++ q ++ "\n    Response: ".toList ++ resp
            else "EBB Serial Timeout after query: ".toList ++ q
          (recordError st msg, io3, none)
        else
          let rest := resp.drop 2
          match rest with
          | c :: r => if c = ',' then (st, io3, some r) else (st, io3, some rest)
          | [] => (st, io3, some [])

/-- `EBB3.query_nickname` -/
def queryNickname3 (P : Params) (st : St) (io : Io) : St × Io :=
  if blocked st then (st, io) else
  match queryQT P st io with
  | (st1, io1, none) => (st1, io1)
  | (st1, io1, some raw) => if !isSpace raw then ({ st1 with name := some (strip raw) }, io1) else (st1, io1)

/-- `EBB3.connect(given_name, caller)`; `found` is what `find_first` / `find_named` returned (C19) -/
def connect (P : Params) (st : St) (given found caller : Option Str) (io : Io) : Out Bool :=
  if st.port then ⟨st, io, .ok true⟩ else
  let st := { st with portName := found }
  match found with
  | none => ⟨recordError st (msgLocate given), io, .ok false⟩
  | some pn =>
    let hs := handshake io
    let st := if hs.opened then { st with port := true } else st
    let st := if hs.raised then disconnect (recordError st (msgTest pn)) else st
    if !hs.verified then ⟨disconnect (recordError st (msgFail pn)), hs.io, .ok false⟩ else
    match parseVersionStmt st hs.sv with
    | none => ⟨st, hs.io, .error .versionSyntax⟩
    | some st =>
      match minVersion3 st P.minVersion with
      | .error e => ⟨st, hs.io, .error e⟩
      | .ok false => ⟨recordError st (msgOld st.version P.minVersion), hs.io, .ok false⟩
      | .ok true =>
        match hs.io.write cuCmd with
        | (true, io1) => ⟨st, io1, .error .serialException⟩
        | (false, io1) =>
          match io1.read with
          | (none, io2) => ⟨st, io2, .error .serialException⟩
          | (some _, io2) =>
            let (st, io3) := queryNickname3 P st io2
            let st := match caller with | some c => { st with caller := some c } | none => st
            ⟨st, io3, .ok true⟩

/-- any later request method (`command(cmd)` → `False`, `query(q)` → `None`, …) on a blocked object:
its first statement returns without touching the port.  `none` = not blocked: not covered here (C04/C05). -/
def requestWhenBlocked (st : St) (io : Io) : Option (St × Io) :=
  if blocked st then some (st, io) else none

/-! ## Legacy layer (`ebb_serial`, `ebb_motion`) -/

/-- `response` of `ebb_serial.query`: `str` after a decode, `bytes` when assigned from a bare `readline()` -/
inductive Resp where
  | str (s : Str)
  | bytes (s : Str)
  deriving Repr, DecidableEq

def Resp.text : Resp → Str
  | .str s => s
  | .bytes s => s

/-- `while len(response) == 0 and n < limit: response = readline()[.decode()]`; `true` = a read raised -/
def retryL (decode : Bool) : Nat → Resp → Io → Resp × Bool × Io
  | 0, r, io => (r, false, io)
  | n + 1, r, io =>
    if !r.text.isEmpty then (r, false, io)
    else match io.read with
      | (none, io') => (r, true, io')
      | (some l, io') => retryL decode n (if decode then .str l else .bytes l) io'

/-- second half of the `try:` block of `ebb_serial.query`: queries outside the no-OK list read one more
(blank/OK) line, with the same retry loop; only the consumption of the script is observable -/
def lqueryExtra (P : Params) (io3 : Io) (cmd : Str) : Io :=
  if P.noOk.contains (lower (strip ((splitOn ',' cmd).headD []))) then io3
  else
    match io3.read with
    | (none, io4) => io4
    | (some u, io4) => (retryL true P.retryL (.str u) io4).2.2

/-- the `try:` block of `ebb_serial.query` -/
def lqueryTry (P : Params) (io : Io) (cmd : Str) : Resp × Io :=
  match io.write cmd with
  | (true, io1) => (.str [], io1)
  | (false, io1) =>
    match io1.read with
    | (none, io2) => (.str [], io2)
    | (some l, io2) =>
      match retryL P.decodeRetry P.retryL (.str l) io2 with
      | (r, true, io3) => (r, io3)
      | (r, false, io3) => (r, lqueryExtra P io3 cmd)

/-- `ebb_serial.query(port, cmd)` for a port that is not `None` -/
def lquery (P : Params) (io : Io) (cmd : Str) : Io × Except PyExc Str :=
  match lqueryTry P io cmd with
  | (.str s, io') => (io', .ok s)
  | (.bytes _, io') => (io', .error .typeError)      -- `'Err:' in response` with a bytes response

/-- `ebb_serial.command(port, cmd)`: only its I/O is observable (it logs, returns `None`) -/
def lcommand (P : Params) (io : Io) (cmd : Str) : Io :=
  match io.write cmd with
  | (true, io1) => io1
  | (false, io1) =>
    match io1.read with
    | (none, io2) => io2
    | (some l, io2) => (retryL true P.retryL (.str l) io2).2.2

def vQuery : Str := "V\r".toList

/-- `ebb_serial.min_version(port, version_string)`; `some none` is Python's `None` -/
def lminVersion (P : Params) (io : Io) (thr : Str) : Io × Except PyExc (Option Bool) :=
  match lquery P io vQuery with
  | (io1, .error e) => (io1, .error e)
  | (io1, .ok reply) =>
    match versionText reply with
    | none => (io1, .ok none)
    | some t =>
      match parseVersion t, parseVersion thr with
      | some v, some g => (io1, .ok (some (versionGe v g)))
      | _, _ => (io1, .error .versionSyntax)

/-- truthiness of `min_version`'s result -/
def truthy : Option Bool → Bool
  | some true => true
  | _ => false

inductive LVal where
  | none_
  | bool_ (b : Bool)
  | str (s : Str)
  deriving Repr, DecidableEq

/-- `ebb_serial.query_nickname(port, verbose)` -/
def lqueryNickname (P : Params) (io : Io) (verbose : Bool) : Io × Except PyExc LVal :=
  match lminVersion P io P.gateNickQuery with
  | (io1, .error e) => (io1, .error e)
  | (io1, .ok vs) =>
    if truthy vs then
      match lquery P io1 "QT\r".toList with
      | (io2, .error e) => (io2, .error e)
      | (io2, .ok raw) =>
        if isSpace raw then
          (io2, .ok (if verbose then .str "This AxiDraw does not have a nickname assigned.".toList else .none_))
        else if verbose then (io2, .ok (.str ("AxiDraw nickname: ".toList ++ raw)))
        else (io2, .ok (.str (strip raw)))
    else if vs = some false then
      (io1, .ok (if verbose then .str "AxiDraw naming requires firmware version 2.5.5 or higher.".toList else .none_))
    else (io1, .ok .none_)

/-- `ebb_serial.write_nickname(port, nickname)` (ASCII `str` nickname) -/
def lwriteNickname (P : Params) (io : Io) (nick : Str) : Io × Except PyExc LVal :=
  match lminVersion P io P.gateNickWrite with
  | (io1, .error e) => (io1, .error e)
  | (io1, .ok vs) =>
    if truthy vs then (lcommand P io1 ("ST,".toList ++ nick ++ ['\r']), .ok (.bool_ true))
    else (io1, .ok .none_)

/-- `ebb_serial.reboot(port)` -/
def lreboot (P : Params) (io : Io) : Io × Except PyExc LVal :=
  match lminVersion P io P.gateReboot with
  | (io1, .error e) => (io1, .error e)
  | (io1, .ok vs) =>
    if truthy vs then (lcommand P io1 "RB\r".toList, .ok .none_)
    else (io1, .ok .none_)

/-- Python `int(s)` for `[ws] [+-] digits [ws]` (no underscores); `none` = `ValueError` -/
def pyInt (s : Str) : Option Int :=
  match strip s with
  | [] => none
  | c :: r =>
    if c = '-' then (parseNat r).map (fun n => -(n : Int))
    else if c = '+' then (parseNat r).map (fun n => (n : Int))
    else (parseNat (c :: r)).map (fun n => (n : Int))

/-- `ebb_motion.queryVoltage(port)` -/
def lqueryVoltage (P : Params) (io : Io) : Io × Except PyExc LVal :=
  match lminVersion P io P.gateVoltage with
  | (io1, .error e) => (io1, .error e)
  | (io1, .ok vs) =>
    if !truthy vs then (io1, .ok (.bool_ true))
    else
      match lquery P io1 "QC\r".toList with
      | (io2, .error e) => (io2, .error e)
      | (io2, .ok raw) =>
        match afterFirst [','] raw with
        | none => (io2, .ok (.bool_ true))
        | some second =>
          match pyInt second with
          | none => (io2, .error .valueError)
          | some v => (io2, .ok (.bool_ (!(v < 250))))

/-- `'{0}'.format(i)` for an int -/
def fmtInt (i : Int) : Str := (toString i).toList

/-- `ebb_motion.servo_timeout(port, timeout_ms, state)` with int arguments -/
def lservoTimeout (P : Params) (io : Io) (timeoutMs : Int) (state : Option Int) : Io × Except PyExc LVal :=
  match lminVersion P io P.gateServo with
  | (io1, .error e) => (io1, .error e)
  | (io1, .ok vs) =>
    if !truthy vs then (io1, .ok .none_)
    else
      let cmd := match state with
        | none => "SR,".toList ++ fmtInt timeoutMs ++ ['\r']
        | some s => "SR,".toList ++ fmtInt timeoutMs ++ [','] ++ fmtInt s ++ ['\r']
      (lcommand P io1 cmd, .ok .none_)

/-! ## Spec side: what the device does, read off the script (independent of the control flow above) -/

/-- outcome of the `i`-th `readline` / `write` / open of a script (exhausted = silence / ok / opens) -/
def rdAt (io : Io) (i : Nat) : Rd := io.reads.getD i .empty
def wrAt (io : Io) (i : Nat) : Wr := io.writes.getD i .ok
def openAt (io : Io) (i : Nat) : Bool := io.opens.getD i true

/-- bytes delivered by a read outcome (`b''` for a timeout) -/
def Rd.raw : Rd → Str
  | .line s => s
  | _ => []

/-- stripped text of a read outcome (`""` for a timeout) -/
def Rd.text (r : Rd) : Str := strip r.raw

/-- the read outcome is a line that contains `EBB` -/
def Rd.ebb (r : Rd) : Bool := isInfix ebbTag r.text

/-- the device identifies itself as an EBB within the two probes; `s` is the identifying reply -/
def Identifies (io : Io) (s : Str) : Prop :=
  openAt io 0 = true ∧ wrAt io 0 = .ok ∧
  (((rdAt io 0).ebb = true ∧ s = (rdAt io 0).text) ∨
   ((rdAt io 0).ebb = false ∧ rdAt io 0 ≠ .raise ∧ wrAt io 1 = .ok ∧ (rdAt io 1).ebb = true ∧ s = (rdAt io 1).text))

instance (io : Io) (s : Str) : Decidable (Identifies io s) := by unfold Identifies; infer_instance

/-- the rejection scenarios of the property statement -/
inductive Rejected (minv : List Nat) (io : Io) : Prop where
  /-- the port cannot be opened -/
  | openFail : openAt io 0 = false → Rejected minv io
  /-- a `SerialException` during the probes -/
  | probeRaise : (wrAt io 0 = .raise ∨ rdAt io 0 = .raise ∨
      ((rdAt io 0).ebb = false ∧ (wrAt io 1 = .raise ∨ rdAt io 1 = .raise))) → Rejected minv io
  /-- silence or a non-EBB device: neither probe reply contains `EBB` -/
  | notEbb : (rdAt io 0).ebb = false → (rdAt io 1).ebb = false → Rejected minv io
  /-- an EBB whose firmware is older than the minimum -/
  | oldFirmware (s : Str) (v : List Nat) : Identifies io s → versionOf s = some v → vle minv v = false →
      Rejected minv io

/-- a read outcome that carries no text (timeout or an empty line) -/
def Rd.silent : Rd → Bool
  | .line s => s.isEmpty
  | .empty => true
  | .raise => false

/-- the board's answer to the legacy version query is `reply`: the first non-silent read outcome is that line -/
def Reports (io : Io) (reply : Str) : Prop :=
  ∃ pre post, io.reads = pre ++ Rd.line reply :: post ∧ (∀ r ∈ pre, r.silent = true) ∧ reply ≠ []

end C15
end Plotink
