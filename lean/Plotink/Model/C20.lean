import Plotink.Py
/-! # C20 — text helpers (`plotink/text_utils.py`): executable model and independent spec. Core Lean only.

Python `str` is modelled as `List Char`.

* `escape` mirrors `xml_escape`: five *sequential* `str.replace` calls with a one-character pattern, in
  the code's order (`&` first).  `escapeMap` is the independent spec: one pass, each character mapped
  on its own.  `unescape` is the lenient single-pass decoding of the five predefined entities;
  `parse` is the strict reading of a standard XML parser at one of three places (element content,
  `"`-quoted attribute value, `'`-quoted attribute value): it *fails* on a raw `<`, on the raw
  delimiter quote and on an `&` that does not begin one of the five predefined entities.
  Not modelled (runtime residue, finding F9): the parser's line-end normalisation (CR, CR LF -> LF) and
  attribute-value normalisation (TAB, LF, CR -> space); numeric character references.
* `formatHms` mirrors `format_hms` over the *exact rational value* of its argument (an `int` or a
  finite `float` is a rational number).  `f64` is binary64 rounding of the one float operation in the
  function (`duration / 1000.0`); `round()` is `Py.roundHE` (half to even on the exact value);
  `'{:.3f}'` on a float prints the exact value correctly rounded (half to even) to three decimals,
  i.e. `roundHE (1000 d)` rendered with the decimal point three digits from the right; `{:02}` is
  `pad2`; `divmod` by a positive number is `Int./`, `Int.%` (Euclidean = floor).
-/
namespace Plotink
namespace C20

/-! ## xml_escape -/

/-- Python's `s.replace(c, r)` for a one-character pattern `c` -/
def replaceChar (c : Char) (r : List Char) (s : List Char) : List Char :=
  s.flatMap (fun x => if x = c then r else [x])

def eAmp : List Char := ['&', 'a', 'm', 'p', ';']
def eLt : List Char := ['&', 'l', 't', ';']
def eGt : List Char := ['&', 'g', 't', ';']
def eQuot : List Char := ['&', 'q', 'u', 'o', 't', ';']
def eApos : List Char := ['&', 'a', 'p', 'o', 's', ';']

/-- the five predefined entities -/
def entities : List (List Char) := [eAmp, eLt, eGt, eQuot, eApos]

/-- model of `xml_escape`: the five replacements, in the order of the source text -/
def escape (s : List Char) : List Char :=
  let t := replaceChar '&' eAmp s
  let t := replaceChar '<' eLt t
  let t := replaceChar '>' eGt t
  let t := replaceChar '"' eQuot t
  let t := replaceChar '\'' eApos t
  t

/-- spec: what one character becomes -/
def escChar (c : Char) : List Char :=
  if c = '&' then eAmp
  else if c = '<' then eLt
  else if c = '>' then eGt
  else if c = '"' then eQuot
  else if c = '\'' then eApos
  else [c]

/-- spec: one pass over the text -/
def escapeMap (s : List Char) : List Char := s.flatMap escChar

/-- lenient single-pass decoding of the five predefined entities -/
def unescape : List Char → List Char
  | '&' :: 'a' :: 'm' :: 'p' :: ';' :: r => '&' :: unescape r
  | '&' :: 'l' :: 't' :: ';' :: r => '<' :: unescape r
  | '&' :: 'g' :: 't' :: ';' :: r => '>' :: unescape r
  | '&' :: 'q' :: 'u' :: 'o' :: 't' :: ';' :: r => '"' :: unescape r
  | '&' :: 'a' :: 'p' :: 'o' :: 's' :: ';' :: r => '\'' :: unescape r
  | c :: r => c :: unescape r
  | [] => []

/-- where the escaped text is put -/
inductive Place where
  | content   -- `<a>…</a>`
  | attrDq    -- `<a x="…"/>`
  | attrSq    -- `<a x='…'/>`
  deriving DecidableEq, Repr

/-- raw characters that end or break the text at that place -/
def breaks (p : Place) (c : Char) : Bool :=
  c == '<' || c == '&' || (p == .attrDq && c == '"') || (p == .attrSq && c == '\'')

/-- strict reading by an XML parser: `none` = not well-formed at this place -/
def parse (p : Place) : List Char → Option (List Char)
  | '&' :: 'a' :: 'm' :: 'p' :: ';' :: r => (parse p r).map ('&' :: ·)
  | '&' :: 'l' :: 't' :: ';' :: r => (parse p r).map ('<' :: ·)
  | '&' :: 'g' :: 't' :: ';' :: r => (parse p r).map ('>' :: ·)
  | '&' :: 'q' :: 'u' :: 'o' :: 't' :: ';' :: r => (parse p r).map ('"' :: ·)
  | '&' :: 'a' :: 'p' :: 'o' :: 's' :: ';' :: r => (parse p r).map ('\'' :: ·)
  | c :: r => if breaks p c then none else (parse p r).map (c :: ·)
  | [] => some []

/-! ## format_hms -/

def digitChar (d : Nat) : Char :=
  match d with
  | 0 => '0' | 1 => '1' | 2 => '2' | 3 => '3' | 4 => '4'
  | 5 => '5' | 6 => '6' | 7 => '7' | 8 => '8' | _ => '9'

/-- decimal digits of a natural number, no leading zeros (`str(n)`) -/
def natDigits (n : Nat) : List Char :=
  if n < 10 then [digitChar n] else natDigits (n / 10) ++ [digitChar (n % 10)]
termination_by n
decreasing_by omega

/-- `str(z)` for a Python int -/
def intDigits (z : Int) : List Char :=
  if z < 0 then '-' :: natDigits z.natAbs else natDigits z.toNat

/-- the format spec `02`: minimum width 2, zero padded -/
def pad2 (z : Int) : List Char :=
  let s := intDigits z
  if s.length < 2 then '0' :: s else s

/-- `n` thousandths printed with three decimals (`'{:.3f}'` of a value whose correctly rounded number
of thousandths is `n`).  A negative zero is not represented (out of the property's domain). -/
def fixed3 (n : Int) : List Char :=
  let a := n.natAbs
  (if n < 0 then ['-'] else []) ++ natDigits (a / 1000) ++
    ['.', digitChar (a / 100 % 10), digitChar (a / 10 % 10), digitChar (a % 10)]

def sSeconds : List Char := " Seconds".toList
def sMinSec : List Char := " (Minutes, seconds)".toList
def sHrMinSec : List Char := " (Hours, minutes, seconds)".toList

/-- model of `format_hms(duration, milliseconds)`; `duration` is the exact value of the argument -/
def formatHms (f64 : Rat → Rat) (duration : Rat) (milliseconds : Bool) : List Char :=
  let duration := if milliseconds then f64 (duration / 1000) else duration
  if duration < 10 then fixed3 (Py.roundHE (1000 * duration)) ++ sSeconds
  else
    let r : Int := Py.roundHE duration
    if r < 60 then pad2 r ++ sSeconds
    else
      let m := r / 60
      let s := r % 60
      if r < 3600 then intDigits m ++ ':' :: pad2 s ++ sMinSec
      else
        let h := m / 60
        let m := m % 60
        intDigits h ++ ':' :: pad2 m ++ ':' :: pad2 s ++ sHrMinSec

/-- branch identifier of `formatHms` (coverage bookkeeping for the harness) -/
def hmsPath (f64 : Rat → Rat) (duration : Rat) (milliseconds : Bool) : String :=
  let duration := if milliseconds then f64 (duration / 1000) else duration
  if duration < 10 then "short"
  else
    let r : Int := Py.roundHE duration
    if r < 60 then "ss" else if r < 3600 then "m:ss" else "h:mm:ss"

/-! ### explicit decoders (the spec side of "encodes exactly …") -/

def isDigit (c : Char) : Bool := 48 ≤ c.toNat && c.toNat ≤ 57
def digitVal (c : Char) : Nat := c.toNat - 48

/-- read a maximal run of decimal digits; returns the number and the rest -/
def readNat : Nat → List Char → Nat × List Char
  | acc, c :: r => if isDigit c then readNat (10 * acc + digitVal c) r else (acc, c :: r)
  | acc, [] => (acc, [])

/-- number of seconds denoted by `ss…`, `m:ss…` or `h:mm:ss…` -/
def decode (s : List Char) : Nat :=
  let a := readNat 0 s
  if a.2.head? = some ':' then
    let b := readNat 0 a.2.tail
    if b.2.head? = some ':' then a.1 * 3600 + b.1 * 60 + (readNat 0 b.2.tail).1
    else a.1 * 60 + b.1
  else a.1

/-- number of milliseconds denoted by `d….ddd…` -/
def decodeMilli (s : List Char) : Nat :=
  let a := readNat 0 s
  if a.2.head? = some '.' then a.1 * 1000 + (readNat 0 (a.2.tail.take 3)).1 else a.1 * 1000

/-- a field printed with exactly two digits -/
def two (n : Nat) : List Char := [digitChar (n / 10), digitChar (n % 10)]

end C20
end Plotink
