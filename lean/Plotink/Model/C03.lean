import Plotink.Model.Firmware
/-! # C03 — step-limited (LM) moves

* `Fw.lmSpec` — the Spec: the first tick of the firmware recurrence (`Model/Firmware.lean`) at which the
  number of motor steps taken in either direction reaches the budget; written from the property
  statement, independent of the Python code.
* `C03.calculate_lm` — hand-written exact integer model of (repaired) `ebb_calc.calculate_lm`: the same
  branch structure as the code (`t_rev`, `s_rev`, `pos_final`, `pos_f_adj`, linear case, two roots,
  discarding roots `≤ t_rev`, earliest remaining root), but `ceil((-b ± sqrt D)/2a)` is computed exactly
  with integer square roots.

Core Lean only (linked into the native driver). -/
namespace Plotink

namespace Fw

/-- start accumulator: the given one, or the cleared value the firmware would choose -/
def lmStart (rate accel : Int) (acc : Option Int) : Int :=
  match acc with
  | some a => a
  | none => ltClear rate accel

/-- first-tick result for a positive budget `n`: `(firstTick, pos_t - pos_0, tot_t % 2^31)`;
`none` when the budget is not reached within `fuel` ticks -/
def lmSpecPos (n rate accel : Int) (acc : Option Int) (fuel : Nat) : Option (Int × Int × Int) :=
  let a0 := lmStart rate accel acc
  match lmFirstTick rate accel a0 n fuel with
  | some t => some ((t : Int), ltPos rate accel a0 t - ltPos rate accel a0 0, ltTotal rate accel t a0 % two31)
  | none => none

/-- requests that cannot move -/
def lmDegenerate (steps rate accel : Int) : Prop :=
  steps = 0 ∨ (rate = 0 ∧ accel = 0) ∨ (steps < 0 ∧ rate < 0)

instance (steps rate accel : Int) : Decidable (lmDegenerate steps rate accel) := by
  unfold lmDegenerate; infer_instance

/-- the C03 Spec: `(0,0,0)` for requests that cannot move; the legacy negative-step form is the mirrored
move `(-rate, -accel)`; otherwise the first tick at which the budget is exhausted. -/
def lmSpec (steps rate accel : Int) (acc : Option Int) (fuel : Nat) : Option (Int × Int × Int) :=
  if lmDegenerate steps rate accel then some (0, 0, 0)
  else if steps < 0 then lmSpecPos (-steps) (-rate) (-accel) acc fuel
  else lmSpecPos steps rate accel acc fuel

/-- linear-time executable form of the first-tick search (used by the driver; `C03_sim_eq` relates it
to `lmFirstTick`): state = ticks done, current rate, total, steps taken. Returns the tick and total. -/
def lmSimLoop (accel n : Int) : Nat → Nat → Int → Int → Int → Option (Nat × Int)
  | 0, _, _, _, _ => none
  | fuel + 1, k, r, tot, taken =>
    let r' := r + accel
    let tot' := tot + r'
    let taken' := taken + ((tot' / two31 - tot / two31).natAbs : Int)
    if taken' ≥ n then some (k + 1, tot') else lmSimLoop accel n fuel (k + 1) r' tot' taken'

def lmSim (n rate accel a0 : Int) (fuel : Nat) : Option (Int × Int × Int) :=
  match lmSimLoop accel n fuel 0 (rate - tdiv accel 2) a0 0 with
  | some (t, tot) => some ((t : Int), tot / two31 - a0 / two31, tot % two31)
  | none => none

end Fw

namespace C03
open Fw

/-- `ceil (x / y)` for `y > 0` -/
def cdiv (x y : Int) : Int := -((-x) / y)

/-- floor and ceiling integer square roots (of a non-negative integer) -/
def fsqrt (d : Int) : Int := (Nat.sqrt d.toNat : Int)
def csqrt (d : Int) : Int := if fsqrt d * fsqrt d = d then fsqrt d else fsqrt d + 1

/-- `k = 2 * rate_effective` -/
def kk (rate accel : Int) : Int := 2 * rate + accel - 2 * tdiv accel 2

/-- `temp_rate`: the rate added at tick 1 -/
def r1 (rate accel : Int) : Int := rate - tdiv accel 2 + accel

/-- `initial_rate_negative` -/
def isNeg (rate accel : Int) : Prop := r1 rate accel < 0 ∨ (r1 rate accel = 0 ∧ accel < 0)

instance (rate accel : Int) : Decidable (isNeg rate accel) := by unfold isNeg; infer_instance

/-- `accum` after the "clear" handling -/
def startAcc (rate accel : Int) (acc : Option Int) : Int :=
  match acc with
  | some a => a
  | none => if isNeg rate accel then two31 - 1 else 0

/-- `accum_adj` -/
def adjOf (rate accel a0 : Int) : Int := if isNeg rate accel then a0 - (two31 - 1) else a0

/-- `t_rev = floor(0.5 - rate/accel)` when rate and accel are non-zero with different signs, else `-1` -/
def tRev (rate accel : Int) : Int :=
  if 0 < accel ∧ rate < 0 then (accel - 2 * rate) / (2 * accel)
  else if accel < 0 ∧ 0 < rate then (2 * rate - accel) / (-(2 * accel))
  else -1

/-- `2 * s_rev_star` before the division by `2^31` -/
def sRev2 (rate accel a0 : Int) : Int :=
  let τ := tRev rate accel
  kk rate accel * τ + accel * τ * τ + 2 * adjOf rate accel a0

/-- `s_rev`: whole steps made by tick `t_rev` -/
def sRev (rate accel a0 : Int) : Int :=
  if 0 < tRev rate accel then ((sRev2 rate accel a0).natAbs : Int) / (2 * two31) else 0

/-- the (repaired) "no direction reversal during this move" test -/
def noRev (n rate accel a0 : Int) : Prop :=
  tRev rate accel < 1 ∨ (tRev rate accel = 1 ∧ r1 rate accel = 0) ∨ n ≤ sRev rate accel a0

instance (n rate accel a0 : Int) : Decidable (noRev n rate accel a0) := by unfold noRev; infer_instance

/-- `t_rev` after the branch selection (`-1` = no reversal in play) -/
def tRevEff (n rate accel a0 : Int) : Int := if noRev n rate accel a0 then -1 else tRev rate accel

/-- `pos_final` -/
def posFinal (n rate accel a0 : Int) : Int :=
  if noRev n rate accel a0 then (if isNeg rate accel then -n else n)
  else if sRev rate accel a0 = 0 then (if 0 < accel then n else -n)
  else (if 0 < accel then -(2 * sRev rate accel a0 - n) else 2 * sRev rate accel a0 - n)

/-- `pos_f_adj` -/
def posAdj (n rate accel a0 : Int) : Int :=
  if noRev n rate accel a0 then posFinal n rate accel a0
  else if 0 < accel then posFinal n rate accel a0 - 1 else posFinal n rate accel a0 + 1

/-- `c_factor` (with the one-count shift of the repaired code when a reversal is in play) -/
def cFactor (n rate accel a0 : Int) : Int :=
  let c := adjOf rate accel a0 - posAdj n rate accel a0 * two31
  if 0 < tRevEff n rate accel a0 then (if 0 < accel then c - 1 else c + 1) else c

/-- choice between the two (ceiled, possibly discarded) roots -/
def pick (nr pr : Int) : Int :=
  if 0 < pr then (if 0 < nr then (if pr < nr then pr else nr) else pr)
  else (if 0 < nr then nr else 0)

/-- quadratic case: `accel ≠ 0`; `k = 2 b`, `c`, and the effective reversal tick -/
def quadTime (accel k c τe : Int) : Int :=
  let D4 := k * k - 8 * accel * c
  if D4 < 0 then 0
  else
    let s := fsqrt D4
    let sc := csqrt D4
    let pr0 := if 0 < accel then cdiv (sc - k) (2 * accel) else cdiv (k - s) (-(2 * accel))
    let nr0 := if 0 < accel then cdiv (-s - k) (2 * accel) else cdiv (sc + k) (-(2 * accel))
    let nr := if 0 < τe ∧ nr0 ≤ τe then -1 else nr0
    let pr := if 0 < τe ∧ pr0 ≤ τe then -1 else pr0
    pick nr pr

/-- constant-rate case -/
def linTime (rate num : Int) : Int :=
  if 0 < rate then cdiv num rate else cdiv (-num) (-rate)

/-- `time_final` -/
def timeFinal (n rate accel a0 : Int) : Int :=
  if accel = 0 then linTime rate (two31 * posFinal n rate accel a0 - adjOf rate accel a0)
  else quadTime accel (kk rate accel) (cFactor n rate accel a0) (tRevEff n rate accel a0)

/-- `c_final`: accumulator at `time_final`, relative to `pos_final` -/
def accFinal (rate accel a0 pos t : Int) : Int :=
  a0 + (kk rate accel * t + accel * t * t) / 2 - two31 * pos

/-- the model for a positive budget and a resolved start accumulator -/
def lmPosA (n rate accel a0 : Int) : Int × Int × Int :=
  let t := timeFinal n rate accel a0
  let pos := posFinal n rate accel a0
  (t, pos, accFinal rate accel a0 pos t)

/-- the model for a positive budget (after the legacy mirroring) -/
def lmPos (n rate accel : Int) (acc : Option Int) : Int × Int × Int :=
  lmPosA n rate accel (startAcc rate accel acc)

/-- exact integer model of `ebb_calc.calculate_lm` (repaired) -/
def calculate_lm (steps rate accel : Int) (acc : Option Int) : Int × Int × Int :=
  if steps = 0 then (0, 0, 0)
  else if accel = 0 ∧ rate = 0 then (0, 0, 0)
  else if steps < 0 then
    if rate < 0 then (0, 0, 0) else lmPos (-steps) (-rate) (-accel) acc
  else lmPos steps rate accel acc

/-- `ebb_motion.moveTimeLM` -/
def moveTimeLM (rate steps accel : Int) : Int := (calculate_lm steps rate accel none).1

/-- branch identifier of the model (for the coverage histogram of the correspondence run) -/
def lmPath (steps rate accel : Int) (acc : Option Int) : String :=
  if steps = 0 then "zero-steps"
  else if accel = 0 ∧ rate = 0 then "zero-rate-accel"
  else if steps < 0 ∧ rate < 0 then "legacy-neg-rate"
  else
    let leg := if steps < 0 then "legacy:" else ""
    let n := if steps < 0 then -steps else steps
    let rate := if steps < 0 then -rate else rate
    let accel := if steps < 0 then -accel else accel
    let a0 := startAcc rate accel acc
    let τ := tRev rate accel
    let sgn := if isNeg rate accel then "neg" else "pos"
    let clr := match acc with | some _ => "acc" | none => "clear"
    let br :=
      if accel = 0 then "const"
      else if τ < 1 then (if τ = 0 then "rev0" else "norev")
      else if τ = 1 ∧ r1 rate accel = 0 then "rev1-r1zero"
      else
        let tt := if τ = 1 then "tau1" else if τ = 2 then "tau2" else "tau3+"
        if n ≤ sRev rate accel a0 then "budget-before-rev:" ++ tt
        else if sRev rate accel a0 = 0 then "rev-before-first-step:" ++ tt
        else "both-directions:" ++ tt
    leg ++ br ++ ":" ++ sgn ++ ":" ++ clr

end C03
end Plotink
