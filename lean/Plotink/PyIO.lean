/-! # PyIO — runtime for source-regenerated I/O code (core Lean only)

`translator/pyio2lean.py` turns Python functions that talk to a serial port into Lean definitions built
from the combinators of this file (a shallow embedding: one combinator per statement / expression form).

* **State.**  A `Port` is a *script* (DESIGN §5d): `reads` is consumed by successive `readline()` calls
  (`line b | empty | raise c`), `writes` by successive `write()` calls (`ok | raise c`); exhausted = silence
  resp. success; `log` = the bytes written so far, `nread` = number of reads made.  The state is threaded
  through every expression and statement.
* **Values.**  `Val`: `str` and `bytes` are different tags (`List Char`, one `Char` per code point / byte),
  `int`, `bool`, `none`, `list` (lists and tuples), `port` (the port object), `exc c` (an exception instance bound
  by `except … as e`), `unbound` (a local that has not been assigned: reading it raises `UnboundLocalError`).
* **Exceptions are real.**  An expression is an `Eff = Port → Except ExcClass Val × Port`; a raise keeps the
  state reached.  A statement is a `Stmt σ = Nat → σ → Port → Flow σ` over the record `σ` of the function's
  local variables (generated per function), where
  `Flow σ = norm env st | ret v st | exc c env st | fuelOut`: an exception carries the environment at the raise
  point, so that assignments made in a `try` body before the raise are visible in the handler and afterwards.
  `tryExcept` runs the first handler whose class list contains a superclass of the raised class
  (`ExcClass.isSub`, Python's hierarchy for the classes listed); an unmatched exception propagates.
* **Loops** run on the fuel argument of the statement (`whileLoop`); exhaustion is the distinct outcome
  `fuelOut`, never a value.  `break`/`continue` are not supported (the translator rejects them).
-/
namespace Plotink
namespace PyIO

/-! ## exception classes -/

inductive ExcClass where
  | baseException | exception
  | osError                       -- = IOError = EnvironmentError
  | serialException               -- serial.SerialException (subclass of IOError)
  | serialTimeoutException | portNotOpenError
  | runtimeError | typeError | attributeError
  | valueError | unicodeError | unicodeDecodeError | unicodeEncodeError
  | lookupError | indexError | keyError
  | nameError | unboundLocalError
  | arithmeticError | zeroDivisionError | overflowError | assertionError
  | invalidVersion                -- packaging.version.InvalidVersion (a ValueError)
  deriving Repr, DecidableEq

def ExcClass.parent : ExcClass → Option ExcClass
  | .baseException => none
  | .exception => some .baseException
  | .osError => some .exception
  | .serialException => some .osError
  | .serialTimeoutException => some .serialException
  | .portNotOpenError => some .serialException
  | .runtimeError => some .exception
  | .typeError => some .exception
  | .attributeError => some .exception
  | .valueError => some .exception
  | .unicodeError => some .valueError
  | .unicodeDecodeError => some .unicodeError
  | .unicodeEncodeError => some .unicodeError
  | .lookupError => some .exception
  | .indexError => some .lookupError
  | .keyError => some .lookupError
  | .nameError => some .exception
  | .unboundLocalError => some .nameError
  | .arithmeticError => some .exception
  | .zeroDivisionError => some .arithmeticError
  | .overflowError => some .arithmeticError
  | .invalidVersion => some .valueError
  | .assertionError => some .exception

def ExcClass.isSubAux : Nat → ExcClass → ExcClass → Bool
  | 0, a, b => a == b
  | n + 1, a, b => a == b || (match a.parent with | some p => isSubAux n p b | none => false)

/-- `issubclass(a, b)` (the hierarchy is 5 deep) -/
def ExcClass.isSub (a b : ExcClass) : Bool := ExcClass.isSubAux 6 a b

/-- does `except (c1, c2, …)` catch an exception of class `e`? -/
def catches (classes : List ExcClass) (e : ExcClass) : Bool := classes.any (fun c => e.isSub c)

/-! ## the scripted port -/

inductive Rd where
  | line (b : List Char)        -- returns these bytes
  | empty                       -- times out: returns `b''`
  | raise (c : ExcClass)        -- raises an exception of this class
  deriving Repr, DecidableEq

inductive Wr where
  | ok
  | raise (c : ExcClass)
  deriving Repr, DecidableEq

structure Port where
  reads : List Rd
  writes : List Wr
  /-- arguments of the `write()` calls made so far, oldest first -/
  log : List (List Char) := []
  /-- number of `readline()` calls made so far -/
  nread : Nat := 0
  deriving Repr, DecidableEq

/-! ## values -/

inductive Val where
  | str (s : List Char)
  | bytes (b : List Char)
  | int (n : Int)
  | bool (b : Bool)
  | none
  | list (l : List Val)
  | port
  | exc (c : ExcClass)
  | unbound
  deriving Repr

abbrev Eff := Port → Except ExcClass Val × Port

inductive Flow (σ : Type) where
  | norm (env : σ) (st : Port)
  | ret (v : Val) (st : Port)
  | exc (c : ExcClass) (env : σ) (st : Port)
  | fuelOut

abbrev Stmt (σ : Type) := Nat → σ → Port → Flow σ

/-- result of a generated function -/
inductive Out where
  | val (v : Val) (st : Port)
  | exc (c : ExcClass) (st : Port)
  | fuelOut
  deriving Repr

/-! ## string primitives (ASCII alphabet) -/

def isAscii (s : List Char) : Bool := s.all (fun c => c.toNat < 128)

/-- `str.isspace` restricted to ASCII: TAB LF VT FF CR FS GS RS US SPACE -/
def isWs (c : Char) : Bool :=
  let n := c.toNat
  (9 ≤ n && n ≤ 13) || (28 ≤ n && n ≤ 32)

def lowerChar (c : Char) : Char :=
  if 65 ≤ c.toNat ∧ c.toNat ≤ 90 then Char.ofNat (c.toNat + 32) else c

def lower (s : List Char) : List Char := s.map lowerChar

def strip (s : List Char) : List Char := ((s.dropWhile isWs).reverse.dropWhile isWs).reverse

def isPrefixOf : List Char → List Char → Bool
  | [], _ => true
  | _ :: _, [] => false
  | a :: as, b :: bs => a == b && isPrefixOf as bs

/-- `p in s` for `str` -/
def isInfix (p : List Char) : List Char → Bool
  | [] => p.isEmpty
  | s@(_ :: t) => isPrefixOf p s || isInfix p t

/-- `s.split(d)` for a one-character separator -/
def splitChar (d : Char) : List Char → List (List Char)
  | [] => [[]]
  | c :: cs =>
    if c = d then [] :: splitChar d cs
    else match splitChar d cs with
      | [] => [[c]]
      | h :: t => (c :: h) :: t

def joinWith (sep : List Char) : List (List Char) → List Char
  | [] => []
  | [a] => a
  | a :: rest => a ++ sep ++ joinWith sep rest

/-! ## pure operations (may raise) -/

def ok (v : Val) : Eff := fun st => (.ok v, st)
def raise (c : ExcClass) : Eff := fun st => (.error c, st)

def truthy : Val → Bool
  | .str s => !s.isEmpty
  | .bytes b => !b.isEmpty
  | .int n => n != 0
  | .bool b => b
  | .none => false
  | .list l => !l.isEmpty
  | .port => true
  | .exc _ => true
  | .unbound => false

mutual
/-- Python `==` (bool/int coercion included; exception instances and ports compare by identity) -/
def pyEq : Val → Val → Bool
  | .str a, .str b => a == b
  | .bytes a, .bytes b => a == b
  | .int a, .int b => a == b
  | .bool a, .bool b => a == b
  | .int a, .bool b => a == (if b then 1 else 0)
  | .bool a, .int b => (if a then 1 else 0) == b
  | .none, .none => true
  | .list a, .list b => pyEqList a b
  | .port, .port => true
  | _, _ => false
def pyEqList : List Val → List Val → Bool
  | [], [] => true
  | a :: as, b :: bs => pyEq a b && pyEqList as bs
  | _, _ => false
end

def isNone : Val → Bool
  | .none => true
  | _ => false

/-- `len(x)` -/
def op_len : Val → Eff
  | .str s => ok (.int s.length)
  | .bytes b => ok (.int b.length)
  | .list l => ok (.int l.length)
  | _ => raise .typeError

def op_eq (a b : Val) : Eff := ok (.bool (pyEq a b))
def op_ne (a b : Val) : Eff := ok (.bool (!pyEq a b))

def intOf : Val → Option Int
  | .int n => some n
  | .bool b => some (if b then 1 else 0)
  | _ => Option.none

def op_lt (a b : Val) : Eff :=
  match intOf a, intOf b with
  | some x, some y => ok (.bool (x < y))
  | _, _ => raise .typeError
def op_le (a b : Val) : Eff :=
  match intOf a, intOf b with
  | some x, some y => ok (.bool (x ≤ y))
  | _, _ => raise .typeError
def op_gt (a b : Val) : Eff := op_lt b a
def op_ge (a b : Val) : Eff := op_le b a

/-- `a + b` on ints, strs, bytes, lists -/
def op_add : Val → Val → Eff
  | .str a, .str b => ok (.str (a ++ b))
  | .bytes a, .bytes b => ok (.bytes (a ++ b))
  | .list a, .list b => ok (.list (a ++ b))
  | a, b => match intOf a, intOf b with
    | some x, some y => ok (.int (x + y))
    | _, _ => raise .typeError
def op_sub (a b : Val) : Eff :=
  match intOf a, intOf b with
  | some x, some y => ok (.int (x - y))
  | _, _ => raise .typeError

def op_is_none (a : Val) : Eff := ok (.bool (isNone a))
def op_is_not_none (a : Val) : Eff := ok (.bool (!isNone a))

/-- `a in b` -/
def op_in : Val → Val → Eff
  | a, .list l => ok (.bool (l.any (fun x => pyEq a x)))
  | .str a, .str b => ok (.bool (isInfix a b))
  | _, .str _ => raise .typeError       -- 'in <string>' requires string as left operand
  | .bytes a, .bytes b => ok (.bool (isInfix a b))
  | .int n, .bytes b => ok (.bool (b.any (fun c => (c.toNat : Int) == n)))
  | _, .bytes _ => raise .typeError     -- a bytes-like object is required, not 'str'
  | _, _ => raise .typeError            -- argument of type … is not iterable
def op_not_in (a b : Val) : Eff := fun st =>
  match op_in a b st with
  | (.ok v, st') => (.ok (.bool (!truthy v)), st')
  | r => r

/-- `a[i]` for a literal non-negative index -/
def op_index : Val → Val → Eff
  | .list l, .int i => if 0 ≤ i then (match l[i.toNat]? with | some v => ok v | Option.none => raise .indexError)
      else raise .indexError
  | .str s, .int i => if 0 ≤ i then (match s[i.toNat]? with | some c => ok (.str [c]) | Option.none => raise .indexError)
      else raise .indexError
  | .bytes s, .int i => if 0 ≤ i then (match s[i.toNat]? with | some c => ok (.int c.toNat) | Option.none => raise .indexError)
      else raise .indexError
  | _, _ => raise .typeError

/-! ## methods -/

/-- `x.encode('ascii')` -/
def meth_encode : Val → Val → Eff
  | .str s, .str _ => if isAscii s then ok (.bytes s) else raise .unicodeEncodeError
  | .str _, _ => raise .typeError
  | _, _ => raise .attributeError
/-- `x.decode('ascii')` -/
def meth_decode : Val → Val → Eff
  | .bytes b, .str _ => if isAscii b then ok (.str b) else raise .unicodeDecodeError
  | .bytes _, _ => raise .typeError
  | _, _ => raise .attributeError
def meth_strip : Val → Eff
  | .str s => ok (.str (strip s))
  | .bytes s => ok (.bytes (strip s))
  | _ => raise .attributeError
def meth_lower : Val → Eff
  | .str s => ok (.str (lower s))
  | .bytes s => ok (.bytes (lower s))
  | _ => raise .attributeError
/-- `x.split(d)` for a one-character literal separator `d` -/
def meth_split_char (d : Char) : Val → Eff
  | .str s => ok (.list ((splitChar d s).map Val.str))
  | .bytes _ => raise .typeError        -- a bytes-like object is required, not 'str'
  | _ => raise .attributeError
def meth_startswith : Val → Val → Eff
  | .str s, .str p => ok (.bool (isPrefixOf p s))
  | .bytes s, .bytes p => ok (.bool (isPrefixOf p s))
  | .str _, _ => raise .typeError
  | .bytes _, _ => raise .typeError
  | _, _ => raise .attributeError

def strsOf : List Val → Option (List (List Char))
  | [] => some []
  | .str s :: r => (strsOf r).map (s :: ·)
  | _ => Option.none
/-- `sep.join(xs)` -/
def meth_join : Val → Val → Eff
  | .str sep, .list l => match strsOf l with
    | some ss => ok (.str (joinWith sep ss))
    | Option.none => raise .typeError
  | .str _, _ => raise .typeError
  | _, _ => raise .attributeError

/-- `str(x)`; the rendering of `bytes`, lists, ports and exceptions is a placeholder (such strings only ever
reach log messages, which are not part of the observable behaviour) -/
def strOf : Val → List Char
  | .str s => s
  | .bytes b => ['b', '\''] ++ b ++ ['\'']
  | .int n => (toString n).toList
  | .bool true => "True".toList
  | .bool false => "False".toList
  | .none => "None".toList
  | _ => "<object>".toList

/-- the template with every `{}` / `{0}` replaced by `a` (the only fields the translator accepts) -/
def formatOne (a : List Char) : List Char → List Char
  | '{' :: '}' :: r => a ++ formatOne a r
  | '{' :: '0' :: '}' :: r => a ++ formatOne a r
  | c :: r => c :: formatOne a r
  | [] => []
/-- `template.format(x)` with one positional argument -/
def meth_format1 : Val → Val → Eff
  | .str t, a => ok (.str (formatOne (strOf a) t))
  | _, _ => raise .attributeError

/-! ## port methods: the effects -/

/-- `port.readline()` -/
def meth_readline : Val → Eff
  | .port => fun st =>
    match st.reads with
    | [] => (.ok (.bytes []), { st with nread := st.nread + 1 })
    | .line b :: r => (.ok (.bytes b), { st with reads := r, nread := st.nread + 1 })
    | .empty :: r => (.ok (.bytes []), { st with reads := r, nread := st.nread + 1 })
    | .raise c :: r => (.error c, { st with reads := r, nread := st.nread + 1 })
  | _ => raise .attributeError

/-- `port.write(data)`: pyserial refuses anything but bytes (`TypeError`); the call is logged and consumes one
write outcome -/
def meth_write : Val → Val → Eff
  | .port, .bytes b => fun st =>
    match st.writes with
    | [] => (.ok (.int b.length), { st with log := st.log ++ [b] })
    | .ok :: w => (.ok (.int b.length), { st with writes := w, log := st.log ++ [b] })
    | .raise c :: w => (.error c, { st with writes := w, log := st.log ++ [b] })
  | .port, _ => raise .typeError
  | _, _ => raise .attributeError

/-! ## expression combinators -/

def bind (m : Eff) (f : Val → Eff) : Eff := fun st =>
  match m st with
  | (.ok v, st') => f v st'
  | (.error c, st') => (.error c, st')

def call1 (f : Val → Eff) (a : Eff) : Eff := bind a f
def call2 (f : Val → Val → Eff) (a b : Eff) : Eff := bind a fun x => bind b fun y => f x y

/-- read of a local variable -/
def load (v : Val) : Eff :=
  match v with
  | .unbound => raise .unboundLocalError
  | v => ok v

/-- `a and b` (short circuit; the value is the deciding operand) -/
def and_ (a b : Eff) : Eff := bind a fun x => if truthy x then b else ok x
def or_ (a b : Eff) : Eff := bind a fun x => if truthy x then ok x else b
def not_ (a : Eff) : Eff := bind a fun x => ok (.bool (!truthy x))

/-- a list / tuple display: elements evaluated left to right -/
def mkList : List Eff → Eff
  | [] => ok (.list [])
  | a :: r => bind a fun x => bind (mkList r) fun l =>
    match l with
    | .list xs => ok (.list (x :: xs))
    | _ => raise .typeError

/-- `logger.<level>(args…)`: the arguments are evaluated (they may raise), the record is dropped -/
def logCall : List Eff → Eff
  | [] => ok .none
  | a :: r => bind a fun _ => logCall r

/-! ## statement combinators -/

section
variable {σ : Type}

def pass : Stmt σ := fun _ env st => .norm env st

def seq (a b : Stmt σ) : Stmt σ := fun fuel env st =>
  match a fuel env st with
  | .norm env' st' => b fuel env' st'
  | r => r

def block : List (Stmt σ) → Stmt σ
  | [] => pass
  | [a] => a
  | a :: r => seq a (block r)

/-- `x = e` -/
def assign (set : σ → Val → σ) (e : σ → Eff) : Stmt σ := fun _ env st =>
  match e env st with
  | (.ok v, st') => .norm (set env v) st'
  | (.error c, st') => .exc c env st'

/-- an expression statement -/
def expr (e : σ → Eff) : Stmt σ := fun _ env st =>
  match e env st with
  | (.ok _, st') => .norm env st'
  | (.error c, st') => .exc c env st'

def return_ (e : σ → Eff) : Stmt σ := fun _ env st =>
  match e env st with
  | (.ok v, st') => .ret v st'
  | (.error c, st') => .exc c env st'

def ifte (c : σ → Eff) (a b : Stmt σ) : Stmt σ := fun fuel env st =>
  match c env st with
  | (.ok v, st') => if truthy v then a fuel env st' else b fuel env st'
  | (.error e, st') => .exc e env st'

/-- `while c: body` with `n` passes left (the test that ends the loop needs a pass too) -/
def whileLoop (c : σ → Eff) (body : Stmt σ) (fuel : Nat) : Nat → σ → Port → Flow σ
  | 0, _, _ => .fuelOut
  | n + 1, env, st =>
    match c env st with
    | (.error e, st') => .exc e env st'
    | (.ok v, st') =>
      if truthy v then
        match body fuel env st' with
        | .norm env' st'' => whileLoop c body fuel n env' st''
        | r => r
      else .norm env st'

def while_ (c : σ → Eff) (body : Stmt σ) : Stmt σ := fun fuel env st => whileLoop c body fuel fuel env st

/-- one `except` clause: the classes it names (`none` = bare `except:`), how `as name` binds and unbinds
the exception instance, the handler body -/
structure Handler (σ : Type) where
  classes : Option (List ExcClass)
  bind : Option (σ → Val → σ)
  body : Stmt σ

def Handler.matches (h : Handler σ) (e : ExcClass) : Bool :=
  match h.classes with
  | Option.none => true
  | some cs => catches cs e

def runHandler (h : Handler σ) (e : ExcClass) : Stmt σ := fun fuel env st =>
  match h.bind with
  | Option.none => h.body fuel env st
  | some set =>
    match h.body fuel (set env (.exc e)) st with
    | .norm env' st' => .norm (set env' .unbound) st'      -- `as name` is deleted at the end of the clause
    | .exc c env' st' => .exc c (set env' .unbound) st'
    | r => r

def dispatch (hs : List (Handler σ)) (e : ExcClass) : Stmt σ := fun fuel env st =>
  match hs with
  | [] => .exc e env st
  | h :: r => if h.matches e then runHandler h e fuel env st else dispatch r e fuel env st

/-- `try: body except …` (no `else` / `finally`) -/
def tryExcept (body : Stmt σ) (hs : List (Handler σ)) : Stmt σ := fun fuel env st =>
  match body fuel env st with
  | .exc e env' st' => dispatch hs e fuel env' st'
  | r => r

/-- run a function body: falling off the end returns `None` -/
def run (body : Stmt σ) (fuel : Nat) (env : σ) (st : Port) : Out :=
  match body fuel env st with
  | .norm _ st' => .val .none st'
  | .ret v st' => .val v st'
  | .exc c _ st' => .exc c st'
  | .fuelOut => .fuelOut

end

end PyIO
end Plotink
