import Plotink.Drv.Util
import Plotink.Model.C12
/-! `c12 float <s>` | `c12 parse <s|None>` | `c12 uu <s|None> <ref|None>` | `c12 back <d|None> <unit>` |
`c12 len <attr|None> <default>` | `c12 inch <attr|None>` | `c12 consts` -/
namespace Plotink
namespace Drv
open C12 PyFloat

def optStr12 (s : String) : Option (Option (List Char)) :=
  if s = "None" then some none else (decodeStr s).map (fun t => some t.toList)

def showNum : Num → String
  | .fin q => showRat q
  | .inf false => "inf"
  | .inf true => "-inf"
  | .nan => "nan"

def showOut : Out → String
  | .none => "None"
  | .val q => showRat q
  | .nonfinite => "NONFINITE"

def showConsts (l : List Rat) : String := ",".intercalate (l.map showRat)

def c12Handle (toks : List String) : String :=
  match toks with
  | ["float", s] =>
    match decodeStr s with
    | some t => (match parseFloat t.toList with | some n => showNum n | none => "ERR")
    | none => "BAD"
  | ["parse", s] =>
    match optStr12 s with
    | some a => (match parseLength a with
      | some (v, u) => showNum v ++ " " ++ encodeStr (String.ofList u)
      | none => "None")
    | none => "BAD"
  | ["uu", s, r] =>
    match optStr12 s, (if r = "None" then some none else (parseRat r).map some) with
    | some a, some ref => showOut (unitsToUserUnits a ref)
    | _, _ => "BAD"
  | ["back", d, u] =>
    match (if d = "None" then some none else (parseRat d).map some), decodeStr u with
    | some dd, some us => (match userUnitToUnits dd us.toList with | some q => showRat q | none => "None")
    | _, _ => "BAD"
  | ["len", s, d] =>
    match optStr12 s, parseRat d with
    | some a, some dd => showOut (getLength a dd)
    | _, _ => "BAD"
  | ["inch", s] =>
    match optStr12 s with
    | some a => showOut (getLengthInches a)
    | none => "BAD"
  | ["consts"] =>
    s!"ppi={showRat pxPerInch} unitsToUserUnits={showConsts UU.consts} userUnitToUnits={showConsts Back.consts} getLength={showConsts GL.consts} getLengthInches={showConsts GI.consts}"
  | _ => "BAD"

end Drv
end Plotink
