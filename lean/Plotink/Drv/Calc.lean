import Plotink.Drv.Util
import Plotink.Ieee
import Plotink.Gen.move_dist_lt
import Plotink.Gen.move_dist_t3
import Plotink.Gen.rate_t3
import Plotink.Gen.max_rate_t3
import Plotink.Gen.calculate_lm
import Plotink.Gen.moveDistLM
import Plotink.Gen.moveDistLMA
import Plotink.Gen.moveTimeLM
import Plotink.Gen.checkLimits
import Plotink.Gen.checkLimitsTol
import Plotink.Gen.point_in_bounds
import Plotink.Gen.constrainLimits
/-! `gen <function> <dps> <args…>`: run a *generated* definition with the concrete rounding instance. -/
namespace Plotink
namespace Drv
open Py

def genHandle (toks : List String) : String :=
  let R := Rounding.ieee
  match toks with
  | f :: dps :: args =>
    let p := Py.dpsToPrec dps.toNat!
    let a := args.map parseVal
    let r : Py.Val := match f, a with
      | "move_dist_lt", [a, b, c, d] => Gen.move_dist_lt R p a b c d
      | "move_dist_t3", [a, b, c, d, e] => Gen.move_dist_t3 R p a b c d e
      | "rate_t3", [a, b, c, d] => Gen.rate_t3 R p a b c d
      | "max_rate_t3", [a, b, c, d] => Gen.max_rate_t3 R p a b c d
      | "calculate_lm", [a, b, c, d] => Gen.calculate_lm R p a b c d
      | "moveDistLM", [a, b, c] => Gen.moveDistLM R p a b c
      | "moveDistLMA", [a, b, c, d] => Gen.moveDistLMA R p a b c d
      | "moveTimeLM", [a, b, c] => Gen.moveTimeLM R p a b c
      | "checkLimits", [a, b, c] => Gen.checkLimits R p a b c
      | "checkLimitsTol", [a, b, c, d] => Gen.checkLimitsTol R p a b c d
      | "constrainLimits", [a, b, c] => Gen.constrainLimits R p a b c
      | "point_in_bounds", [x, y, x0, y0, x1, y1, t] =>
          Gen.point_in_bounds R p (.tup [x, y]) (.tup [.tup [x0, y0], .tup [x1, y1]]) t
      | _, _ => .err
    showVal r
  | _ => "BAD"

end Drv
end Plotink
