import Plotink.Drv.Util
import Plotink.Ieee
import Plotink.Gen.move_dist_lt
import Plotink.Gen.move_dist_t3
import Plotink.Gen.rate_t3
import Plotink.Gen.max_rate_t3
import Plotink.Gen.calculate_lm
import Plotink.Gen.moveDistLM
import Plotink.Gen.moveDistLMA
import Plotink.Gen.moveTimeLM
import Plotink.Gen.checkLimits
import Plotink.Gen.checkLimitsTol
import Plotink.Gen.point_in_bounds
import Plotink.Gen.constrainLimits
import Plotink.Gen.clip_code
import Plotink.Gen.clip_segment
import Plotink.Gen.points_in_tolerance
import Plotink.Gen.supersample
import Plotink.Gen.xml_escape
import Plotink.Gen.format_hms
import Plotink.Gen.parseLengthWithUnits
import Plotink.Gen.unitsToUserUnits
import Plotink.Gen.userUnitToUnits
import Plotink.Gen.vb_scale
import Plotink.Gen.getLength
import Plotink.Gen.getLengthInches
import Plotink.Gen.subdivideCubicPath
import Plotink.Gen.rtree_Index
import Plotink.Gen.grid_Index
import Plotink.Gen.square_dist
import Plotink.Gen.distance
import Plotink.Gen.dotProductXY
import Plotink.Gen.position_scale
import Plotink.Gen.points_near
import Plotink.Gen.points_equal
import Plotink.Gen.pathdata_first_point
import Plotink.Gen.pathdata_last_point
import Plotink.Gen.vInitial_VF_A_Dx
import Plotink.Gen.vFinal_Vi_A_Dx
/-! `gen <function> <dps> <args…>`: run a *generated* definition with the concrete rounding instance
(`Rounding.ieee`), or with `Rounding.exact` when `<dps>` is written `x<dps>`.
Arguments: `parseVal` syntax, plus nested lists `[[f1/2,0],[1,2]]` (no blanks) and strings `s<code points>`
(comma-separated decimal code points as `showVal` prints them; `s-` is the empty string; top level only).
Functions with a `while` loop take their fuel as first argument and answer `FUELOUT` on exhaustion. -/
namespace Plotink
namespace Drv
open Py

mutual
/-- one value of the nested-list argument syntax, and the unread rest -/
partial def parseNested (cs : List Char) : Py.Val × List Char :=
  match cs with
  | '[' :: rest => parseNestedList rest []
  | _ =>
    let stop := fun (c : Char) => c == ',' || c == ']'
    let tok := String.ofList (cs.takeWhile (fun c => !stop c))
    -- inside a nested list a string can only be a single character: `s<code point>` (commas separate the items)
    let v := if tok.startsWith "s" then (match decodeStr (tok.drop 1).toString with | some t => Py.Val.str t | none => .err)
             else parseVal tok
    (v, cs.dropWhile (fun c => !stop c))
partial def parseNestedList (cs : List Char) (acc : List Py.Val) : Py.Val × List Char :=
  match cs with
  | [] => (.err, [])
  | ']' :: rest => (.tup acc.reverse, rest)
  | ',' :: rest => parseNestedList rest acc
  | _ => let (v, rest) := parseNested cs; parseNestedList rest (v :: acc)
end

def parseArg (s : String) : Py.Val :=
  if s.startsWith "[" then
    match parseNested s.toList with
    | (v, []) => v
    | _ => .err
  else if s.startsWith "s" then
    match decodeStr (s.drop 1).toString with
    | some t => .str t
    | none => .err
  else parseVal s

def showPyOut : Py.Out → String
  | .val v => showVal v
  | .fuelOut => "FUELOUT"

def genHandle (toks : List String) : String :=
  match toks with
  | f :: dps :: args =>
    let exact := dps.startsWith "x"
    let R := if exact then Rounding.exact else Rounding.ieee
    let p := Py.dpsToPrec (if exact then (dps.drop 1).toString.toNat! else dps.toNat!)
    let a := args.map parseArg
    match f, a with
    | "clip_segment", [.int fuel, seg, bounds] => showPyOut (Gen.clip_segment R p fuel.toNat seg bounds)
    | "supersample", [.int fuel, vs, tol] => showPyOut (Gen.supersample R p fuel.toNat vs tol)
    | "rtree", [.int fuel, bbs, .tup qs] =>      -- t = Index(bboxes); (t, [t.intersection(q) for q in qs])
      (match Gen.rtree_Index_init R p fuel.toNat bbs with
       | .fuelOut => "FUELOUT"
       | .val t =>
         let rs := qs.map (fun q => match Gen.rtree_Index_intersection R p fuel.toNat t q with
           | .fuelOut => Py.Val.str "FUELOUT" | .val v => v)
         showVal (.tup [t, .tup rs]))
    | "grid", [verts, bins, rev, .tup ops] =>
      -- idx = spatial_grid.Index(verts, bins, rev); then the history `ops`: [0, vertex] = nearest, [1, k] = remove_path
      let step := fun (st : Py.Val × List Py.Val) (op : Py.Val) =>
        match op with
        | .tup [.int 0, v] => (st.1, Gen.grid_Index_nearest R p st.1 v :: st.2)
        | .tup [.int 1, k] => (Py.getItem (Gen.grid_Index_remove_path R p st.1 k) 1, Py.Val.none_ :: st.2)
        | _ => (st.1, Py.Val.err :: st.2)
      let fin := ops.foldl step (Gen.grid_Index_init R p verts bins rev, [])
      showVal (.tup [.tup fin.2.reverse, fin.1])
    | "rtree_init", [.int fuel, bbs] => showPyOut (Gen.rtree_Index_init R p fuel.toNat bbs)
    | "subdivideCubicPath", [.int fuel, sp, flat, i] => showPyOut (Gen.subdivideCubicPath R p fuel.toNat sp flat i)
    | _, _ =>
    let r : Py.Val := match f, a with
      | "clip_code", [x, y, x0, x1, y0, y1] => Gen.clip_code R p x y x0 x1 y0 y1
      | "points_in_tolerance", [pts, tol] => Gen.points_in_tolerance R p pts tol
      | "xml_escape", [t] => Gen.xml_escape R p t
      | "format_hms", [d, ms] => Gen.format_hms R p d ms
      | "parseLengthWithUnits", [t] => Gen.parseLengthWithUnits R p t
      | "unitsToUserUnits", [t, ref] => Gen.unitsToUserUnits R p t ref
      | "userUnitToUnits", [d, u] => Gen.userUnitToUnits R p d u
      | "vb_scale", [vb, par, w, h] => Gen.vb_scale R p vb par w h
      | "getLength", [attr, dflt] => Gen.getLength R p attr dflt        -- attr: the document attribute text or None
      | "getLengthInches", [attr] => Gen.getLengthInches R p attr
      | "tpoint", [a, b, t] => Gen.tpoint R p a b t
      | "beziersplitatt", [c, t] => Gen.beziersplitatt R p c t
      | "move_dist_lt", [a, b, c, d] => Gen.move_dist_lt R p a b c d
      | "move_dist_t3", [a, b, c, d, e] => Gen.move_dist_t3 R p a b c d e
      | "rate_t3", [a, b, c, d] => Gen.rate_t3 R p a b c d
      | "max_rate_t3", [a, b, c, d] => Gen.max_rate_t3 R p a b c d
      | "calculate_lm", [a, b, c, d] => Gen.calculate_lm R p a b c d
      | "moveDistLM", [a, b, c] => Gen.moveDistLM R p a b c
      | "moveDistLMA", [a, b, c, d] => Gen.moveDistLMA R p a b c d
      | "moveTimeLM", [a, b, c] => Gen.moveTimeLM R p a b c
      | "checkLimits", [a, b, c] => Gen.checkLimits R p a b c
      | "distance", [a, b] => Gen.distance R p a b
      | "dotProductXY", [a, b] => Gen.dotProductXY R p a b
      | "position_scale", [a, b, c] => Gen.position_scale R p a b c
      | "points_near", [a, b, c] => Gen.points_near R p a b c
      | "square_dist", [a, b] => Gen.square_dist R p a b
      | "points_equal", [a, b] => Gen.points_equal R p a b
      | "pathdata_first_point", [a] => Gen.pathdata_first_point R p a
      | "pathdata_last_point", [a] => Gen.pathdata_last_point R p a
      | "vInitial_VF_A_Dx", [a, b, c] => Gen.vInitial_VF_A_Dx R p a b c
      | "vFinal_Vi_A_Dx", [a, b, c] => Gen.vFinal_Vi_A_Dx R p a b c
      | "checkLimitsTol", [a, b, c, d] => Gen.checkLimitsTol R p a b c d
      | "constrainLimits", [a, b, c] => Gen.constrainLimits R p a b c
      | "point_in_bounds", [x, y, x0, y0, x1, y1, t] =>
          Gen.point_in_bounds R p (.tup [x, y]) (.tup [.tup [x0, y0], .tup [x1, y1]]) t
      | _, _ => .err
    showVal r
  | _ => "BAD"

end Drv
end Plotink
