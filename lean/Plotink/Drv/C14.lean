import Plotink.Drv.Util
import Plotink.Ieee
import Plotink.Model.C14
/-! `c14 run <8 flags 0/1> <exact|f64> <n> (id x1 y1 x2 y2)^n <m> (x1 y1 x2 y2)^m`
      → `<tree> <ids;ids;…> <brute;brute;…> <depth>`  (ids comma-separated in visiting order, `-` = none)
    `c14 covers <8 flags>` → `True` | `False` -/
namespace Plotink
namespace Drv
open C14

def c14Flags (s : String) : Option Strict :=
  match s.toList.map (· == '1') with
  | [a, b, c, d, e, f, g, h] => if s.toList.all (fun ch => ch == '0' || ch == '1') then some ⟨a, b, c, d, e, f, g, h⟩ else none
  | _ => none

def c14Box : List String → Option Box
  | [a, b, c, d] => do
    let x1 ← parseRat a; let y1 ← parseRat b; let x2 ← parseRat c; let y2 ← parseRat d
    pure ⟨x1, y1, x2, y2⟩
  | _ => none

def c14IBoxes : Nat → List String → Option (List IBox × List String)
  | 0, rest => some ([], rest)
  | n + 1, i :: a :: b :: c :: d :: rest => do
    let id ← i.toNat?
    let bx ← c14Box [a, b, c, d]
    let (l, r) ← c14IBoxes n rest
    pure ((id, bx) :: l, r)
  | _, _ => none

def c14Boxes : Nat → List String → Option (List Box × List String)
  | 0, rest => some ([], rest)
  | n + 1, a :: b :: c :: d :: rest => do
    let bx ← c14Box [a, b, c, d]
    let (l, r) ← c14Boxes n rest
    pure (bx :: l, r)
  | _, _ => none

def c14Ext : Option Box → String
  | none => "-"
  | some e => s!"{showRat e.x1},{showRat e.y1},{showRat e.x2},{showRat e.y2}"

def c14Ids (l : List Nat) : String := if l.isEmpty then "-" else ",".intercalate (l.map toString)

def c14Tree : Tree → String
  | .leaf bs => "L[" ++ ",".intercalate (bs.map (fun b => toString b.1)) ++ "]"
  | .node e0 e1 e2 e3 t0 t1 t2 t3 =>
    "N(" ++ c14Ext e0 ++ ":" ++ c14Tree t0 ++ ")(" ++ c14Ext e1 ++ ":" ++ c14Tree t1 ++ ")(" ++
      c14Ext e2 ++ ":" ++ c14Tree t2 ++ ")(" ++ c14Ext e3 ++ ":" ++ c14Tree t3 ++ ")"

def c14Handle (toks : List String) : String :=
  match toks with
  | ["covers", f] => match c14Flags f with
    | some s => if coversB s then "True" else "False"
    | none => "BAD"
  | "run" :: f :: mode :: n :: rest =>
    match c14Flags f, n.toNat? with
    | some s, some n =>
      match c14IBoxes n rest with
      | some (bs, m :: rest') =>
        match m.toNat? with
        | some m =>
          match c14Boxes m rest' with
          | some (qs, []) =>
            let rnd : Rat → Rat := if mode == "f64" then roundBits 53 else id
            let t := build s (meanCenter rnd) bs
            let a := ";".intercalate (qs.map (fun q => c14Ids (query q t)))
            let b := ";".intercalate (qs.map (fun q => c14Ids (bruteForce q bs)))
            s!"{c14Tree t} {if qs.isEmpty then "." else a} {if qs.isEmpty then "." else b} {t.depth}"
          | _ => "BAD"
        | none => "BAD"
      | _ => "BAD"
    | _, _ => "BAD"
  | _ => "BAD"

end Drv
end Plotink
