import Plotink.Drv.Util
import Plotink.Ieee
import Plotink.Model.C20
/-! Driver handler for C20.

* `c20 esc <str>`            -> `<escape> <escapeMap>`                       (model and one-pass spec)
* `c20 read <str>`           -> `<unescape> <content> <attrDq> <attrSq>`      (`!` = parse failure)
* `c20 hms <rat> <0|1>`      -> `<path> <text> <decode text or decodeMilli text>`
-/
namespace Plotink
namespace Drv
open C20

private def encL (l : List Char) : String := encodeStr (String.ofList l)

private def encO (o : Option (List Char)) : String :=
  match o with
  | some l => encL l
  | none => "!"

def c20Handle (toks : List String) : String :=
  match toks with
  | ["esc", s] =>
    match decodeStr s with
    | some t => s!"{encL (escape t.toList)} {encL (escapeMap t.toList)}"
    | none => "BAD"
  | ["read", s] =>
    match decodeStr s with
    | some t =>
      let l := t.toList
      s!"{encL (unescape l)} {encO (parse .content l)} {encO (parse .attrDq l)} {encO (parse .attrSq l)}"
    | none => "BAD"
  | ["hms", q, ms] =>
    match parseRat q with
    | some d =>
      let m := ms == "1"
      let f64 := roundBits 53
      let path := hmsPath f64 d m
      let text := formatHms f64 d m
      let back := if path == "short" then decodeMilli text else decode text
      s!"{path} {encL text} {back}"
    | none => "BAD"
  | _ => "BAD"

end Drv
end Plotink
