import Plotink.Drv.Util
import Plotink.Model.C19
/-! `c19 <n> (dev desc hwid)^n <m> (None | k<str>)^m`
      → `firstL firstE listL listE namesL namesE specFirst specList findL_1 findE_1 … findL_m findE_m`
    strings as comma-separated code points (`-` = empty); a port as `dev|desc|hwid`; lists joined by `;` -/
namespace Plotink
namespace Drv
open C19

def c19Enc (s : Str) : String := encodeStr (String.ofList s)

def c19Ports : Nat → List String → Option (List Port × List String)
  | 0, rest => some ([], rest)
  | n + 1, a :: b :: c :: rest => do
    let d ← decodeStr a; let e ← decodeStr b; let h ← decodeStr c
    let (l, r) ← c19Ports n rest
    pure (⟨d.toList, e.toList, h.toList⟩ :: l, r)
  | _, _ => none

def c19OptStr : Option Str → String
  | none => "None"
  | some s => "s" ++ c19Enc s

def c19Port (p : Port) : String := c19Enc p.dev ++ "|" ++ c19Enc p.desc ++ "|" ++ c19Enc p.hwid

def c19OptPorts : Option (List Port) → String
  | none => "None"
  | some l => if l.isEmpty then "EMPTY" else ";".intercalate (l.map c19Port)

def c19OptNames : Option (List Str) → String
  | none => "None"
  | some l => if l.isEmpty then "EMPTY" else ";".intercalate (l.map c19Enc)

def c19Key (t : String) : Option (Option Str) :=
  if t == "None" then some none
  else if t.startsWith "k" then (decodeStr (t.drop 1).toString).map (fun s => some s.toList)
  else none

def c19Handle (toks : List String) : String :=
  match toks with
  | n :: rest =>
    match n.toNat? with
    | some n =>
      match c19Ports n rest with
      | some (ports, m :: keys) =>
        if m.toNat? ≠ some keys.length then "BAD" else
        let head := [c19OptStr (Legacy.findFirst ports), c19OptStr (Ebb3.findFirst ports),
                     c19OptPorts (Legacy.listPorts ports), c19OptPorts (Ebb3.listPorts ports),
                     c19OptNames (Legacy.listNamed ports), c19OptNames (Ebb3.listNamed ports),
                     c19OptStr (specFirst ports), c19OptPorts (specList ports)]
        let finds := keys.map fun t => match c19Key t with
          | some k => c19OptStr (Legacy.findNamed k ports) ++ " " ++ c19OptStr (Ebb3.findNamed k ports)
          | none => "BAD BAD"
        " ".intercalate (head ++ finds)
      | _ => "BAD"
    | none => "BAD"
  | _ => "BAD"

end Drv
end Plotink
