import Plotink.Drv.Util
import Plotink.Model.C06
/-! `c06 chunk` → the model's pause chunk.
`c06 all <port 0|1> <fwOk 0|1> <res1> <res2> <request> <args…>` →
`legacy | legacy(truthy) | ebb3 | ebb3(truthy) | documented | legacy gate`, each field `NONE`, `EMPTY`
or the wire strings (code-point encoded, space separated).  Optional arguments: `None`. -/
namespace Plotink
namespace Drv
open C06

private def optInt (s : String) : Option (Option Int) :=
  if s == "None" then some none else s.toInt?.map some

private def ints (l : List String) : Option (List Int) :=
  l.foldr (fun s acc => match s.toInt?, acc with
    | some z, some a => some (z :: a)
    | _, _ => none) (some [])

def c06ParseReq (name : String) (a : List String) : Option Req :=
  match name, a with
  | "absMove", [r, p1, p2] =>
      match r.toInt?, optInt p1, optInt p2 with
      | some r, some p1, some p2 => some (.absMove r p1 p2)
      | _, _, _ => none
  | "lowLevel", [r1, s1, a1, r2, s2, a2, c] =>
      match ints [r1, s1, a1, r2, s2, a2], optInt c with
      | some [r1, s1, a1, r2, s2, a2], some c => some (.lowLevel r1 s1 a1 r2 s2 a2 c)
      | _, _ => none
  | "penDown", [d, p] =>
      match d.toInt?, optInt p with
      | some d, some p => some (.penDown d p)
      | _, _ => none
  | "penUp", [d, p] =>
      match d.toInt?, optInt p with
      | some d, some p => some (.penUp d p)
      | _, _ => none
  | "servoTimeout", [m, s] =>
      match m.toInt?, optInt s with
      | some m, some s => some (.servoTimeout m s)
      | _, _ => none
  | _, _ =>
    match name, ints a with
    | "xyMove", some [x, y, d] => some (.xyMove x y d)
    | "abMove", some [x, y, d] => some (.abMove x y d)
    | "timedPause", some [n] => some (.timedPause n)
    | "enable", some [r1, r2] => some (.enable r1 r2)
    | "disable", some [] => some .disable
    | "pbConfig", some [p, s, d] => some (.pbConfig p s d)
    | "pbSet", some [p, s] => some (.pbSet p s)
    | "pbRead", some [p] => some (.pbRead p)
    | "togglePen", some [] => some .togglePen
    | "penPosDown", some [v] => some (.penPosDown v)
    | "penPosUp", some [v] => some (.penPosUp v)
    | "penRateDown", some [v] => some (.penRateDown v)
    | "penRateUp", some [v] => some (.penRateUp v)
    | "setLayer", some [v] => some (.setLayer v)
    | "queryLayer", some [] => some .queryLayer
    | "clearSteps", some [] => some .clearSteps
    | "clearAccumulators", some [] => some .clearAccumulators
    | "varWrite", some [v, i] => some (.varWrite v i)
    | "varRead", some [i] => some (.varRead i)
    | "varWriteInt32", some [v, i] => some (.varWriteInt32 v i)
    | "varReadInt32", some [i] => some (.varReadInt32 i)
    | "queryPenUp", some [] => some .queryPenUp
    | "queryButton", some [] => some .queryButton
    | "querySteps", some [] => some .querySteps
    | "queryVoltage", some [] => some .queryVoltage
    | "queryCurrent", some [] => some .queryCurrent
    | "queryMotorsPI", some [] => some .queryMotorsPI
    | "queryMotorsQE", some [] => some .queryMotorsQE
    | "queryNickname", some [] => some .queryNickname
    | "queryStatus", some [] => some .queryStatus
    | "reboot", some [] => some .reboot
    | "bootload", some [] => some .bootload
    | _, _ => none

private def showCmds (l : List Cmd) : String :=
  if l.isEmpty then "EMPTY" else " ".intercalate ((wires l).map encodeStr)

private def showOpt : Option (List Cmd) → String
  | none => "NONE"
  | some l => showCmds l

def c06Handle (toks : List String) : String :=
  match toks with
  | ["chunk"] => toString pauseChunk
  | "all" :: port :: fw :: r1 :: r2 :: name :: args =>
    match c06ParseReq name args, r1.toInt?, r2.toInt? with
    | some r, some res1, some res2 =>
      let p := port == "1"
      let f := fw == "1"
      let b : Board := ⟨res1, res2⟩
      " | ".intercalate
        [showOpt (legacyEmit p f r), showOpt (legacyEmitWith truthy p f r),
         showOpt (ebb3Emit p b r), showOpt (ebb3EmitWith truthy p b r),
         showCmds (documented b r), showCmds (legacyGate r)]
    | _, _, _ => "BAD"
  | _ => "BAD"

end Drv
end Plotink
