import Plotink.Drv.Util
import Plotink.Model.Firmware
/-! `c02 …` / `c17 …`: run the firmware-recurrence *Spec* (`Model/Firmware.lean`) on concrete inputs, as a
second opinion next to the harness's own Python oracle. Core Lean only.

* `c02 spec T rate accel jerk acc`  → `(pos rem)` of `Fw.t3Spec` (`acc` = `clear` or an integer)
* `c02 rate T rate accel jerk`      → `Fw.t3Rate … T`
* `c02 clear rate accel jerk`       → `Fw.t3Clear`
* `c17 peak T rate accel jerk`      → `Fw.t3Peak … T`  (quadratic cost: keep `T` small) -/
namespace Plotink
namespace Drv
open Fw

def c02Handle (toks : List String) : String :=
  match toks with
  | ["spec", t, r, a, j, acc] =>
    match t.toNat?, r.toInt?, a.toInt?, j.toInt? with
    | some t, some r, some a, some j =>
      let acc? : Option (Option Int) := if acc == "clear" then some none else acc.toInt?.map some
      match acc? with
      | some ac => let (p, q) := t3Spec r a j t ac; s!"({p} {q})"
      | none => "BAD"
    | _, _, _, _ => "BAD"
  | ["rate", t, r, a, j] =>
    match t.toNat?, r.toInt?, a.toInt?, j.toInt? with
    | some t, some r, some a, some j => toString (t3Rate r a j t)
    | _, _, _, _ => "BAD"
  | ["clear", r, a, j] =>
    match r.toInt?, a.toInt?, j.toInt? with
    | some r, some a, some j => toString (t3Clear r a j)
    | _, _, _ => "BAD"
  | _ => "BAD"

def c17Handle (toks : List String) : String :=
  match toks with
  | ["peak", t, r, a, j] =>
    match t.toNat?, r.toInt?, a.toInt?, j.toInt? with
    | some t, some r, some a, some j => toString (t3Peak r a j t)
    | _, _, _, _ => "BAD"
  | _ => "BAD"

end Drv
end Plotink
