import Plotink.Drv.Util
import Plotink.Model.C03
/-! `c03 model <steps> <rate> <accel> <acc|clear>` → `t pos acc path`
    `c03 spec <steps> <rate> <accel> <acc|clear> <fuel>` → `t pos acc` | `none` (Spec by simulation)
    `c03 specdef <steps> <rate> <accel> <acc|clear> <fuel>` → the same through `Fw.lmSpec` (cubic; small cases) -/
namespace Plotink
namespace Drv
open Fw C03

def parseAcc (s : String) : Option (Option Int) :=
  if s == "clear" then some none else s.toInt?.map some

def showTriple (r : Int × Int × Int) : String := s!"{r.1} {r.2.1} {r.2.2}"

def c03Handle (toks : List String) : String :=
  match toks with
  | ["model", s, r, a, acc] =>
    match s.toInt?, r.toInt?, a.toInt?, parseAcc acc with
    | some s, some r, some a, some acc =>
      showTriple (C03.calculate_lm s r a acc) ++ " " ++ lmPath s r a acc
    | _, _, _, _ => "BAD"
  | ["time", r, s, a] =>
    match s.toInt?, r.toInt?, a.toInt? with
    | some s, some r, some a => toString (C03.moveTimeLM r s a)
    | _, _, _ => "BAD"
  | ["spec", s, r, a, acc, fuel] =>
    match s.toInt?, r.toInt?, a.toInt?, parseAcc acc, fuel.toNat? with
    | some s, some r, some a, some acc, some fuel =>
      if lmDegenerate s r a then "0 0 0"
      else
        let (n, r, a) := if s < 0 then (-s, -r, -a) else (s, r, a)
        match lmSim n r a (lmStart r a acc) fuel with
        | some x => showTriple x
        | none => "none"
    | _, _, _, _, _ => "BAD"
  | ["specdef", s, r, a, acc, fuel] =>
    match s.toInt?, r.toInt?, a.toInt?, parseAcc acc, fuel.toNat? with
    | some s, some r, some a, some acc, some fuel =>
      match lmSpec s r a acc fuel with
      | some x => showTriple x
      | none => "none"
    | _, _, _, _, _ => "BAD"
  | _ => "BAD"

end Drv
end Plotink
