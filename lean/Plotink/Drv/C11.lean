import Plotink.Drv.Util
import Plotink.Model.C11
/-! `c11 vb <viewBox|None> <par|None> <W> <H>` → `sx sy ox oy|path` ; `c11 par <par|None>` → `align mos` -/
namespace Plotink
namespace Drv
open C11

def optStr (s : String) : Option (Option (List Char)) :=
  if s = "None" then some none else (decodeStr s).map (fun t => some t.toList)

def c11Handle (toks : List String) : String :=
  match toks with
  | ["vb", vb, par, w, h] =>
    match optStr vb, optStr par, parseRat w, parseRat h with
    | some v, some p, some W, some H =>
      let r := match vbScale v p W H with
        | .xf t => s!"{showRat t.sx} {showRat t.sy} {showRat t.ox} {showRat t.oy}"
        | .nonfinite => "NONFINITE"
      r ++ "|" ++ path v p W H
    | _, _, _, _ => "BAD"
  | ["par", par] =>
    match optStr par with
    | some p => let t := parTokens p; encodeStr (String.ofList t.1) ++ " " ++ encodeStr (String.ofList t.2)
    | none => "BAD"
  | _ => "BAD"

end Drv
end Plotink
