import Plotink.Gen.legacy_dispatch
import Plotink.Gen.EBB3_find_first
/-!
Driver handler for the SOURCE-REGENERATED module-level functions of the legacy layers and of port discovery
(`translator/pyio2lean.py`, list `FUNCS`; runtime `Plotink/PyObj.lean` with the attribute-less object `NoObj`;
`Gen/legacy_dispatch.lean` = call by generated name).

* `legacygen run <fuel> <reads> <writes> <comports> <call>…` runs a history of calls on one device script:
  reads: `;`-separated `L<str>` / `X<key>` (`key` ∈ `serial notopen oserror ioerror runtime`, bare `X` = `serial`), or `.`;
  writes: a word over `o` `x` (SerialException) `p` (PortNotOpenError) `e` (OSError) `i` (IOError), or `.`;
  comports: what `list(comports())` yields — `.` (no ports), `T` (raises `TypeError`) or `;`-separated
  `dev|desc|hwid` (each a code-point string, `-` = empty);
  call: `<generated name>:arg:…` with `P` (the port object), `n`, `b0`/`b1`, `i<int>`, `s<str>`; the pseudo call
  `@find_first` runs the method `EBB3.find_first` on a fresh object and reports the `port_name` it leaves.
  answer: one record per call, separated by ` | `: `<res> <written> <nreads>` with `res` = `V<value>` / `X<exception class>`
  / `FUELOUT` (ends the history); values: `None True False <int> s<str> (a,b,…) [a,b,…] P`.
* `legacygen functions` — the generated names the dispatch knows.
-/
namespace Plotink
namespace Drv
open PyObj

def lgDecStr (s : String) : Option (List Char) :=
  if s = "-" then some [] else
  (s.splitOn ",").foldr (fun t acc => match t.toNat?, acc with
    | some n, some l => some (Char.ofNat n :: l)
    | _, _ => none) (some [])

def lgEncStr (s : List Char) : String :=
  if s.isEmpty then "-" else ",".intercalate (s.map (fun c => toString c.toNat))

mutual
partial def lgShowVal : Val → String
  | .none => "None"
  | .bool true => "True"
  | .bool false => "False"
  | .int z => toString z
  | .str s => "s" ++ lgEncStr s
  | .bytes s => "b" ++ lgEncStr s
  | .tuple l => "(" ++ ",".intercalate (l.map lgShowVal) ++ ")"
  | .list l => "[" ++ ",".intercalate (l.map lgShowVal) ++ "]"
  | .port => "P"
  | _ => "OTHER"
end

def lgExcName : PyIO.ExcClass → String
  | .baseException => "BaseException" | .exception => "Exception" | .osError => "OSError"
  | .serialException => "SerialException" | .serialTimeoutException => "SerialTimeoutException"
  | .portNotOpenError => "PortNotOpenError" | .runtimeError => "RuntimeError" | .typeError => "TypeError"
  | .attributeError => "AttributeError" | .valueError => "ValueError" | .unicodeError => "UnicodeError"
  | .unicodeDecodeError => "UnicodeDecodeError" | .unicodeEncodeError => "UnicodeEncodeError"
  | .lookupError => "LookupError" | .indexError => "IndexError" | .keyError => "KeyError"
  | .nameError => "NameError" | .unboundLocalError => "UnboundLocalError"
  | .arithmeticError => "ArithmeticError" | .zeroDivisionError => "ZeroDivisionError"
  | .overflowError => "OverflowError" | .assertionError => "AssertionError" | .invalidVersion => "InvalidVersion"

def lgExcOfKey (k : String) : PyIO.ExcClass :=
  if k == "notopen" then .portNotOpenError
  else if k == "oserror" then .osError
  else if k == "ioerror" then .osError
  else if k == "runtime" then .runtimeError
  else .serialException

def lgParseReads (t : String) : Option (List PyIO.Rd) :=
  if t = "." then some [] else
  (t.splitOn ";").mapM (fun e =>
    if e.startsWith "X" then some (PyIO.Rd.raise (lgExcOfKey (e.drop 1).toString))
    else if e.startsWith "L" then (lgDecStr (e.drop 1).toString).map PyIO.Rd.line
    else none)

def lgParseWrites (t : String) : Option (List PyIO.Wr) :=
  if t = "." then some [] else
  t.toList.mapM (fun c =>
    if c = 'o' then some PyIO.Wr.ok
    else if c = 'x' then some (PyIO.Wr.raise .serialException)
    else if c = 'p' then some (PyIO.Wr.raise .portNotOpenError)
    else if c = 'e' then some (PyIO.Wr.raise .osError)
    else if c = 'i' then some (PyIO.Wr.raise .osError)
    else none)

def lgParseComports (t : String) : Option (Except PyIO.ExcClass Val) :=
  if t = "." then some (.ok (.list []))
  else if t = "T" then some (.error .typeError)
  else
    ((t.splitOn ";").mapM (fun (e : String) =>
      match (e.splitOn "|").mapM lgDecStr with
      | some [a, b, c] => some (Val.tuple [.str a, .str b, .str c])
      | _ => none)).map (fun l => Except.ok (Val.list l))

def lgParseArg (t : String) : Option Val :=
  if t = "P" then some .port
  else if t = "n" then some .none
  else if t = "b0" then some (.bool false)
  else if t = "b1" then some (.bool true)
  else if t.startsWith "i" then (t.drop 1).toString.toInt?.map Val.int
  else if t.startsWith "s" then (lgDecStr (t.drop 1).toString).map Val.str
  else Option.none

def lgRecord (res : String) (w0 w : World NoObj) : String :=
  let nw := w.port.log.drop w0.port.log.length
  let wr := if nw.isEmpty then "." else ";".intercalate (nw.map lgEncStr)
  s!"{res} {wr} {w.port.nread - w0.port.nread}"

def lgRunCalls (fuel : Nat) : List String → World NoObj → List String
  | [], _ => []
  | tok :: rest, w =>
    if tok = "@find_first" then
      match Gen.EBB3_find_first fuel { obj := Gen.EBB3_Obj.init, port := w.port, ext := w.ext } with
      | .val _ w2 => lgRecord ("V" ++ lgShowVal w2.obj.port_name) w { w with port := w2.port } :: lgRunCalls fuel rest w
      | .exc c _ => ("X" ++ lgExcName c ++ " . 0") :: lgRunCalls fuel rest w
      | .fuelOut => ["FUELOUT"]
    else
    match tok.splitOn ":" with
    | [] => ["BAD"]
    | name :: argToks =>
      match argToks.mapM lgParseArg with
      | none => ["BAD"]
      | some args =>
        match Gen.legacy_dispatch fuel name args w with
        | none => ["BAD"]
        | some .fuelOut => ["FUELOUT"]
        | some (.val v w2) => lgRecord ("V" ++ lgShowVal v) w w2 :: lgRunCalls fuel rest w2
        | some (.exc c w2) => lgRecord ("X" ++ lgExcName c) w w2 :: lgRunCalls fuel rest w2

def legacygenRun (toks : List String) : Option String :=
  match toks with
  | fuel :: reads :: writes :: cp :: calls => do
    let fuel ← fuel.toNat?
    let reads ← lgParseReads reads
    let writes ← lgParseWrites writes
    -- a leading `!` on the comports token: `serial.Serial(...)` fails to open (raises SerialException)
    let openOk := !cp.startsWith "!"
    let cp ← lgParseComports (if openOk then cp else (cp.drop 1).toString)
    let w : World NoObj := { obj := NoObj.mk, port := ⟨reads, writes, [], 0⟩, ext := { comports := cp, openOk := openOk } }
    pure (" | ".intercalate (lgRunCalls fuel calls w))
  | _ => none

def legacygenHandle (toks : List String) : String :=
  match toks with
  | "run" :: rest => (legacygenRun rest).getD "BAD"
  | ["functions"] => " ".intercalate Gen.legacy_functions
  | _ => "BAD"

end Drv
end Plotink
