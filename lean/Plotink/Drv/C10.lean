import Plotink.Drv.Util
import Plotink.Drv.C09
import Plotink.Model.C10
/-! `c10 sub <fuel> <flat> hinx hiny px py houtx houty …` | `c10 restrict <8 rats> t0 t1` | `c10 flat <flat> <8 rats>` -/
namespace Plotink
namespace Drv
open C10

def c10Nodes : List Rat → Option (List Node)
  | [] => some []
  | a :: b :: c :: d :: e :: f :: t => (c10Nodes t).map (⟨(a, b), (c, d), (e, f)⟩ :: ·)
  | _ => none

def c10ShowPt (p : C09.Pt) : String := showRat p.1 ++ " " ++ showRat p.2

def c10Handle (toks : List String) : String :=
  match toks with
  | "sub" :: fuel :: flat :: rest =>
    match fuel.toNat?, parseRat flat, (c09Rats rest).bind c10Nodes with
    | some fuel, some flat, some sp =>
      match subdivideCubicPath fuel sp flat with
      | some r => if r.isEmpty then "-" else
          " ".intercalate (r.map (fun n => c10ShowPt n.hin ++ " " ++ c10ShowPt n.p ++ " " ++ c10ShowPt n.hout))
      | none => "NONE"
    | _, _, _ => "BAD"
  | "restrict" :: rest =>
    match c09Rats rest with
    | some [a, b, c, d, e, f, g, h, t0, t1] =>
      let r := restrict ⟨(a, b), (c, d), (e, f), (g, h)⟩ t0 t1
      " ".intercalate [c10ShowPt r.p0, c10ShowPt r.p1, c10ShowPt r.p2, c10ShowPt r.p3]
    | _ => "BAD"
  | "flat" :: rest =>
    match c09Rats rest with
    | some [flat, a, b, c, d, e, f, g, h] =>
      match isFlat ⟨(a, b), (c, d), (e, f), (g, h)⟩ flat with
      | some true => "True"
      | some false => "False"
      | none => "ASSERT"
    | _ => "BAD"
  | _ => "BAD"

end Drv
end Plotink
