import Plotink.Drv.Util
import Plotink.Model.Firmware
/-! `c01 spec|closed|clear …`: the Spec side of C01 (firmware recurrence) on concrete inputs. Core only. -/
namespace Plotink
namespace Drv

/-- total by the closed form proved in `C01_closed` (for tick counts too large to fold) -/
def c01ClosedTotal (rate accel : Int) (T : Nat) (a0 : Int) : Int :=
  a0 + (T : Int) * (rate - Fw.tdiv accel 2) + accel * (T : Int) * ((T : Int) + 1) / 2

def c01Acc (s : String) : Option (Option Int) :=
  if s == "clear" then some none else s.toInt?.map some

def c01Handle (toks : List String) : String :=
  match toks with
  | ["spec", r, a, t, acc] =>
    match r.toInt?, a.toInt?, t.toNat?, c01Acc acc with
    | some r, some a, some t, some acc =>
      let p := Fw.ltSpec r a t acc
      s!"({p.1} {p.2})"
    | _, _, _, _ => "BAD"
  | ["closed", r, a, t, acc] =>
    match r.toInt?, a.toInt?, t.toNat?, c01Acc acc with
    | some r, some a, some t, some acc =>
      let a0 := match acc with | some x => x | none => Fw.ltClear r a
      let tot := c01ClosedTotal r a t a0
      s!"({tot / Fw.two31} {tot % Fw.two31})"
    | _, _, _, _ => "BAD"
  | ["clear", r, a] =>
    match r.toInt?, a.toInt? with
    | some r, some a => toString (Fw.ltClear r a)
    | _, _ => "BAD"
  | _ => "BAD"

end Drv
end Plotink
