import Plotink.Drv.Util
import Plotink.Model.C13
/-! `c13 <bins> <rev:0|1> <n> <x1 y1 x2 y2>*n <op>*` — one whole history per line.

ops: `q <x> <y>` nearest (answer `<id>|N` followed by `:1`/`:0`, the verdict of `specCheck`),
`r <k>` remove_path (answer `ok`, or `ERR` and the history stops), `d` dump
(`geo=<xmin>,<ymin>,<bx>,<by>|cells=a,b;c;;…|lookup=…`).  A failing `build` answers `ERR`. -/
namespace Plotink
namespace Drv
open C13

private def takeRats : Nat → List String → Option (List Rat × List String)
  | 0, ts => some ([], ts)
  | k + 1, t :: ts => match parseRat t, takeRats k ts with
    | some q, some (qs, rest) => some (q :: qs, rest)
    | _, _ => none
  | _ + 1, [] => none

private def toPaths : List Rat → List Path
  | a :: b :: c :: d :: rest => ((a, b), (c, d)) :: toPaths rest
  | _ => []

private def dump (g : Grid) : String :=
  let cs := ";".intercalate (g.cells.map fun ids => ",".intercalate (ids.map toString))
  let lk := ",".intercalate (g.lookup.map toString)
  s!"geo={showRat g.xmin},{showRat g.ymin},{showRat g.bx},{showRat g.by_}|cells={cs}|lookup={lk}"

private partial def runOps (g : Grid) (live : List Nat) (acc : Array String) : List String → Array String
  | "q" :: x :: y :: rest =>
    match parseRat x, parseRat y with
    | some x, some y =>
      let r := nearest g (x, y)
      let ok := specCheck g.verts g.rev g.toGeo live (x, y) r
      let s := (match r with | none => "N" | some i => toString i) ++ (if ok then ":1" else ":0")
      runOps g live (acc.push s) rest
    | _, _ => acc.push "BAD"
  | "r" :: k :: rest =>
    match k.toNat? with
    | some k => match remove g k with
      | some g' => runOps g' (live.filter (· ≠ k)) (acc.push "ok") rest
      | none => acc.push "ERR"
    | none => acc.push "BAD"
  | "d" :: rest => runOps g live (acc.push (dump g)) rest
  | [] => acc
  | _ => acc.push "BAD"

def c13Handle (toks : List String) : String :=
  match toks with
  | bins :: rev :: n :: rest =>
    match bins.toNat?, n.toNat? with
    | some bins, some n =>
      match takeRats (4 * n) rest with
      | some (qs, ops) =>
        let verts := toPaths qs
        match build verts bins (rev == "1") with
        | none => "ERR"
        | some g => " ".intercalate (runOps g (List.range n) #["OK"] ops).toList
      | none => "BAD"
    | _, _ => "BAD"
  | _ => "BAD"

end Drv
end Plotink
