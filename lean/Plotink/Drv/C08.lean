import Plotink.Drv.Util
import Plotink.Model.C08
/-! `c08 clip x1 y1 x2 y2 xmin ymin xmax ymax` (rationals `n/d`):
  answer `<ACC|REJ> x1 y1 x2 y2 | <path> | <spec>`  with the model's result segment,
  or `FAILSAFE | <path> | <spec>` / `ERR zerodiv | …` / `ERR unbound | …`;
  `<path>` = initial outcodes and the sequence of (endpoint, boundary) clips, e.g. `5,10:1L1T2R2B`;
  `<spec>` = `NONE` or `x1 y1 x2 y2`, the executable Liang–Barsky specification `specClip`. -/
namespace Plotink
namespace Drv
open C08

/-- evidence only: which endpoint/boundary each pass of the model's loop clips (replays the model's
own `clipCode`/`newPoint`) -/
def c08Trace (r : Rect) : Nat → Seg → String
  | 0, _ => "!"
  | fuel + 1, s =>
    let c1 := clipCode s.a.x s.a.y r
    let c2 := clipCode s.b.x s.b.y r
    if c1 = 0 ∧ c2 = 0 then "" else if c1 &&& c2 ≠ 0 then "" else
    let code := if c1 ≠ 0 then c1 else c2
    let side := if code &&& 1 ≠ 0 then "L" else if code &&& 2 ≠ 0 then "R" else if code &&& 4 ≠ 0 then "T" else "B"
    match newPoint code s r with
    | .error _ => "E"
    | .ok p =>
      if code = c1 then s!"1{side}" ++ c08Trace r fuel ⟨p, s.b⟩ else s!"2{side}" ++ c08Trace r fuel ⟨s.a, p⟩

def showSeg (s : Seg) : String :=
  s!"{showRat s.a.x} {showRat s.a.y} {showRat s.b.x} {showRat s.b.y}"

def c08Handle (toks : List String) : String :=
  match toks with
  | ["clip", a, b, c, d, e, f, g, h] =>
    match parseRat a, parseRat b, parseRat c, parseRat d, parseRat e, parseRat f, parseRat g, parseRat h with
    | some x1, some y1, some x2, some y2, some xmin, some ymin, some xmax, some ymax =>
      let s : Seg := ⟨⟨x1, y1⟩, ⟨x2, y2⟩⟩
      let r : Rect := ⟨xmin, ymin, xmax, ymax⟩
      let res := match clipSegment r s with
        | .error .zeroDivision => "ERR zerodiv"
        | .error .unboundLocal => "ERR unbound"
        | .ok none => "FAILSAFE"
        | .ok (some (acc, s')) => (if acc then "ACC " else "REJ ") ++ showSeg s'
      let path := s!"{clipCode x1 y1 r},{clipCode x2 y2 r}:" ++ c08Trace r 5 s
      let spec := match specClip r s with
        | none => "NONE"
        | some s' => showSeg s'
      s!"{res} | {path} | {spec}"
    | _, _, _, _, _, _, _, _ => "BAD"
  | _ => "BAD"

end Drv
end Plotink
