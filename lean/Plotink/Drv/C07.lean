import Plotink.Drv.Util
import Plotink.Model.C07
import Plotink.Gen.ebb_serial_query
import Plotink.Gen.ebb_serial_command
/-! Driver handler for C07.

`c07 params`                      → `<retry> <noOK names, '|'-separated, each as code points> <0|1>`  (the values of `C07.std`)
`c07 seq <retry> <noOK> <dec> <W> <pre…> ; <call> ; <call> …`
   `<noOK>`  names separated by `|`, each a comma-separated code-point string (`-` = empty name, `~` = empty list)
   `<W>`     outcomes of the successive `write()` calls: string over `o` (ok) / `x` (raises); `-` = none listed
   `<pre…>`  read outcomes already queued in the device before the first call
   `<call>`  `q|c <0|1 port present> <cmd as code points | None> <read outcomes the board queues when the request is written>`
   read outcome tokens: `e<k>` = k empty reads, `l<code points>` = a line (`l-` = `b''`), `x` = raises
 answer: per call, joined by ` ; `:
   `<result> <n writes> <written texts '|'-separated or ~> <n reads> <queue length afterwards> <model path> <spec>`
   spec: `S<what arrived>` per `C07.arrived` for a query that reaches the device, else `-`
   result: `S<str>` | `B<bytes>` | `None` | `!TypeError` | `!UnicodeDecodeError` | `!UnicodeEncodeError`

`c07 gseq <fuel> <wexc> <W> <pre…> ; <call> ; <call> …`   — the same histories on the SOURCE-REGENERATED functions
   (`Gen.ebb_serial_query` / `Gen.ebb_serial_command`, translator/pyio2lean.py)
   `<wexc>`  class name of the exception a failing write raises; read tokens: `x<ClassName>` raises that class
   `<call>`  `q|c <0|1 port present> <cmd as code points | None> <True|False|None verbose> <read outcomes…>`
 answer per call: `<result> <n writes> <written texts> <n reads> <queue length afterwards>`
   result: as above, or `True`/`False`/`I<int>`/`OTHER`, `!<Python exception class name>`, `FUELOUT`
-/
namespace Plotink
namespace Drv
open C07

def c07Enc (s : List Char) : String := encodeStr (String.ofList s)

def c07Dec (t : String) : Option (List Char) := (decodeStr t).map String.toList

def c07ParseNames (t : String) : Option (List Str) :=
  if t = "~" then some [] else (t.splitOn "|").mapM c07Dec

def c07ShowNames (l : List Str) : String :=
  if l.isEmpty then "~" else "|".intercalate (l.map c07Enc)

def c07ParseReads : List String → Option (List Rd)
  | [] => some []
  | t :: ts =>
    match c07ParseReads ts with
    | none => none
    | some rest =>
      if t.startsWith "x" then some (.raise .serialException :: rest)
      else if t.startsWith "e" then
        match (t.drop 1).toString.toNat? with
        | some k => some (List.replicate k .empty ++ rest)
        | none => none
      else if t.startsWith "l" then
        match c07Dec (t.drop 1).toString with
        | some b => some (.line b :: rest)
        | none => none
      else none

def c07ParseWrites (t : String) : List Wr :=
  if t = "-" then [] else t.toList.map (fun c => if c = 'x' then Plotink.PyIO.Wr.raise .serialException else Plotink.PyIO.Wr.ok)

def c07ShowRes : Except PyExc Val → String
  | .ok (.str s) => "S" ++ c07Enc s
  | .ok (.bytes b) => "B" ++ c07Enc b
  | .ok .none => "None"
  | .error .typeError => "!TypeError"
  | .error .unicodeDecodeError => "!UnicodeDecodeError"
  | .error .unicodeEncodeError => "!UnicodeEncodeError"

def c07ShowFlow : Flow → String
  | .done => "done"
  | .io => "io"
  | .py _ => "py"

/-- split a token list at the `;` tokens -/
def c07Segments (toks : List String) : List (List String) :=
  toks.foldr (fun t acc =>
    if t = ";" then [] :: acc
    else match acc with
      | [] => [[t]]
      | s :: ss => (t :: s) :: ss) [[]]

/-- identifier of the model branch taken (coverage histogram of the harness) -/
def c07Path (P : Params) (isQ : Bool) (c : Str) (p : Port) : String :=
  if isQ then
    let (f, v, _) := queryBody P c p
    let kind := if P.noOK.contains (reqName c) then "q1" else "q2"
    s!"{kind}:{c07ShowFlow f}:{if v.len = 0 then "nodata" else "data"}"
  else
    let (f, _) := commandBody P c p
    s!"c:{c07ShowFlow f}"

def c07RunCalls (P : Params) : List (List String) → Port → List String
  | [], _ => []
  | seg :: segs, p =>
    match seg with
    | k :: portTok :: cmdTok :: readToks =>
      let isQ : Bool := k == "q"
      let cmd : Option (Option Str) := if cmdTok = "None" then some none else (c07Dec cmdTok).map some
      match cmd, c07ParseReads readToks with
      | some cmd, some reply =>
        let present : Bool := portTok == "1"
        let written := present && (match cmd with | some c => isAscii c | none => false)
        let p0 : Port := if written then { p with reads := p.reads ++ reply } else p
        let (res, port') := call P ⟨isQ, cmd⟩ (if present then some p0 else none)
        let p1 : Port := match port' with | some q => q | none => p
        let newWrites := p1.log.drop p.log.length
        let path := match present, cmd with
          | true, some c => c07Path P isQ c p0
          | false, _ => "noport"
          | _, none => "notext"
        -- the Spec side (`arrived`, with the documented retry limit), for queries that reach the device
        let spec := match present, isQ, cmd with
          | true, true, some c =>
            if isAscii c then "S" ++ c07Enc (if firstWriteOk p0 then arrived (std.retry + 1) p0.reads else []) else "-"
          | _, _, _ => "-"
        let line := s!"{c07ShowRes res} {newWrites.length} {c07ShowNames newWrites} {p1.nread - p.nread} {p1.reads.length} {path} {spec}"
        line :: c07RunCalls P segs p1
      | _, _ => ["BAD"]
    | _ => ["BAD"]


/-! ## the regenerated functions on the same histories -/

def c07ExcNames : List (String × PyIO.ExcClass) :=
  [("BaseException", .baseException), ("Exception", .exception), ("OSError", .osError), ("IOError", .osError),
   ("SerialException", .serialException), ("SerialTimeoutException", .serialTimeoutException),
   ("PortNotOpenError", .portNotOpenError), ("RuntimeError", .runtimeError), ("TypeError", .typeError),
   ("AttributeError", .attributeError), ("ValueError", .valueError), ("UnicodeError", .unicodeError),
   ("UnicodeDecodeError", .unicodeDecodeError), ("UnicodeEncodeError", .unicodeEncodeError),
   ("LookupError", .lookupError), ("IndexError", .indexError), ("KeyError", .keyError), ("NameError", .nameError),
   ("UnboundLocalError", .unboundLocalError), ("ArithmeticError", .arithmeticError),
   ("ZeroDivisionError", .zeroDivisionError), ("AssertionError", .assertionError)]

def c07ExcOfName (n : String) : PyIO.ExcClass :=
  match c07ExcNames.find? (fun p => p.1 == n) with
  | some p => p.2
  | none => .serialException

def c07ExcName (c : PyIO.ExcClass) : String :=
  match c07ExcNames.find? (fun p => p.2 == c) with
  | some p => p.1
  | none => "?"

def c07ParseReadsG : List String → Option (List Rd)
  | [] => some []
  | t :: ts =>
    match c07ParseReadsG ts with
    | none => none
    | some rest =>
      if t.startsWith "x" then some (.raise (c07ExcOfName (t.drop 1).toString) :: rest)
      else if t.startsWith "e" then
        match (t.drop 1).toString.toNat? with
        | some k => some (List.replicate k .empty ++ rest)
        | none => none
      else if t.startsWith "l" then
        match c07Dec (t.drop 1).toString with
        | some b => some (.line b :: rest)
        | none => none
      else none

def c07ShowValG : PyIO.Val → String
  | .str s => "S" ++ c07Enc s
  | .bytes b => "B" ++ c07Enc b
  | .none => "None"
  | .bool true => "True"
  | .bool false => "False"
  | .int n => s!"I{n}"
  | _ => "OTHER"

def c07ParseBoolG (t : String) : PyIO.Val :=
  if t == "True" then .bool true else if t == "False" then .bool false else .none

def c07RunCallsG (fuel : Nat) : List (List String) → Port → List String
  | [], _ => []
  | seg :: segs, p =>
    match seg with
    | k :: portTok :: cmdTok :: vTok :: readToks =>
      let cmd : Option PyIO.Val := if cmdTok = "None" then some .none else (c07Dec cmdTok).map PyIO.Val.str
      match cmd, c07ParseReadsG readToks with
      | some cmd, some reply =>
        let present : Bool := portTok == "1"
        let written := present && (match cmd with | .str c => isAscii c | _ => false)
        let p0 : Port := if written then { p with reads := p.reads ++ reply } else p
        let portV : PyIO.Val := if present then .port else .none
        let out := if k == "q" then Gen.ebb_serial_query fuel portV cmd (c07ParseBoolG vTok) p0
                   else Gen.ebb_serial_command fuel portV cmd (c07ParseBoolG vTok) p0
        match out with
        | .fuelOut => ["FUELOUT"]
        | .val v p1 =>
          let nw := p1.log.drop p.log.length
          s!"{c07ShowValG v} {nw.length} {c07ShowNames nw} {p1.nread - p.nread} {p1.reads.length}" :: c07RunCallsG fuel segs p1
        | .exc c p1 =>
          let nw := p1.log.drop p.log.length
          s!"!{c07ExcName c} {nw.length} {c07ShowNames nw} {p1.nread - p.nread} {p1.reads.length}" :: c07RunCallsG fuel segs p1
      | _, _ => ["BAD"]
    | _ => ["BAD"]

def c07Handle (toks : List String) : String :=
  match toks with
  | ["params"] =>
    s!"{std.retry} {c07ShowNames std.noOK} {if std.decodeRetry then 1 else 0}"
  | "seq" :: retry :: names :: dec :: w :: rest =>
    match retry.toNat?, c07ParseNames names with
    | some r, some nm =>
      let P : Params := ⟨r, nm, dec == "1"⟩
      match c07Segments rest with
      | pre :: calls =>
        match c07ParseReads pre with
        | some q => " ; ".intercalate (c07RunCalls P calls ⟨q, c07ParseWrites w, [], 0⟩)
        | none => "BAD"
      | [] => "BAD"
    | _, _ => "BAD"
  | "gseq" :: fuel :: wexc :: w :: rest =>
    match fuel.toNat?, c07Segments rest with
    | some f, pre :: calls =>
      match c07ParseReadsG pre with
      | some q =>
        let ws : List Wr := if w = "-" then [] else
          w.toList.map (fun c => if c = 'x' then Plotink.PyIO.Wr.raise (c07ExcOfName wexc) else Plotink.PyIO.Wr.ok)
        " ; ".intercalate (c07RunCallsG f calls ⟨q, ws, [], 0⟩)
      | none => "BAD"
    | _, _ => "BAD"
  | _ => "BAD"

end Drv
end Plotink
