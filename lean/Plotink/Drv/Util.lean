import Plotink.Py
/-! Line-protocol helpers shared by all driver handlers (core Lean only). -/
namespace Plotink
namespace Drv

/-- "12", "-3", "5/7", "-5/7" -/
def parseRat (s : String) : Option Rat :=
  match s.splitOn "/" with
  | [n] => n.toInt?.map (fun z => (z : Rat))
  | [n, d] => match n.toInt?, d.toNat? with
    | some z, some k => if k = 0 then none else some ((z : Rat) / (k : Rat))
    | _, _ => none
  | _ => none

def showRat (q : Rat) : String :=
  if q.den = 1 then toString q.num else s!"{q.num}/{q.den}"

/-- strings travel as comma-separated decimal code points; "-" is the empty string -/
def decodeStr (s : String) : Option String :=
  if s = "-" then some "" else
  (s.splitOn ",").foldl (fun acc t => match acc, t.toNat? with
    | some a, some n => some (a.push (Char.ofNat n))
    | _, _ => none) (some "")

def encodeStr (s : String) : String :=
  if s.isEmpty then "-" else ",".intercalate (s.toList.map (fun c => toString c.toNat))

partial def showVal : Py.Val → String
  | .int z => toString z
  | .flt q => s!"f{showRat q}"
  | .mpf q => s!"m{showRat q}"
  | .str s => s!"s{encodeStr s}"
  | .bool_ b => if b then "True" else "False"
  | .none_ => "None"
  | .tup l => "(" ++ " ".intercalate (l.map showVal) ++ ")"
  | .err => "ERR"

/-- argument syntax: `clear` | `None` | `True` | `False` | int | `f<rat>` (float with that exact value) | `m<rat>` -/
def parseVal (s : String) : Py.Val :=
  if s == "clear" then .str "clear"
  else if s == "None" then .none_
  else if s == "True" then .bool_ true
  else if s == "False" then .bool_ false
  else if s.startsWith "f" then (match parseRat (s.drop 1).toString with | some q => .flt q | none => .err)
  else if s.startsWith "m" then (match parseRat (s.drop 1).toString with | some q => .mpf q | none => .err)
  else match s.toInt? with | some z => .int z | none => .err

end Drv
end Plotink
