import Plotink.Gen.EBBMotionWrap_dispatch
/-!
Driver handler for the SOURCE-REGENERATED methods of `EBB3` / `EBBMotionWrap`
(`translator/pyio2lean.py`, runtime `Plotink/PyObj.lean`, one file `Gen/<Class>_<method>.lean` per method,
`Gen/EBBMotionWrap_dispatch.lean` = call by Python name).

* `ebb3gen run <fuel> <port> <err> <version> <vparsed> <name> <caller> <portname> <reads> <writes> <call>…`
  runs a history of method calls on one object over one device script; the format is the one of `ebb3 run`
  (Drv/Ebb3.lean) except that faults carry their exception class:
  reads: `;`-separated `L<str>` / `X<key>` (`key` ∈ `serial notopen oserror ioerror runtime`, bare `X` = `serial`), or `.`;
  writes: a word over `o` (ok) `x` (SerialException) `p` (PortNotOpenError) `e` (OSError) `i` (IOError), or `.`;
  call: `method:arg:…` with `i<int>`, `n`, `s<str>`, `b0`/`b1`.  For `connect:given:caller:found:b<open>` and
  `find_first:found` the trailing arguments are the *environment* of the call (port search result, whether
  `serial.Serial` opens), as in the model.
  answer: one record per call, separated by ` | `:
  `<res> <written> <nreads> <port> <err> <version> <vparsed> <name> <caller> <portname>`, `res` = `V<value>` or
  `X<Python exception class name>`; `FUELOUT` ends the history.
* `ebb3gen methods` — the Python names the dispatch knows.
-/
namespace Plotink
namespace Drv
open PyObj

def g3DecStr (s : String) : Option (List Char) :=
  if s = "-" then some [] else
  (s.splitOn ",").foldr (fun t acc => match t.toNat?, acc with
    | some n, some l => some (Char.ofNat n :: l)
    | _, _ => none) (some [])

def g3EncStr (s : List Char) : String :=
  if s.isEmpty then "-" else ",".intercalate (s.map (fun c => toString c.toNat))

def g3DecOpt (s : String) : Option Val :=
  if s = "~" then some .none else (g3DecStr s).map Val.str

def g3EncOpt : Val → String
  | .none => "~"
  | .str s => g3EncStr s
  | _ => "OTHER"

def g3DecVer (s : String) : Option Val :=
  if s = "~" then some .none else
  ((s.splitOn ".").foldr (fun t acc => match t.toNat?, acc with
    | some n, some l => some (n :: l)
    | _, _ => none) (some [])).map Val.version

def g3EncVer : Val → String
  | .none => "~"
  | .version l => ".".intercalate (l.map toString)
  | _ => "OTHER"

def g3ShowVal : Val → String
  | .none => "None"
  | .bool true => "True"
  | .bool false => "False"
  | .int z => toString z
  | .str s => "s" ++ g3EncStr s
  | .tuple [a, b] =>
    let sh : Val → String := fun v => match v with
      | .none => "None" | .bool true => "True" | .bool false => "False" | .int z => toString z
      | .str s => "s" ++ g3EncStr s | _ => "OTHER"
    "(" ++ sh a ++ "," ++ sh b ++ ")"
  | _ => "OTHER"

def g3ExcName : PyIO.ExcClass → String
  | .baseException => "BaseException" | .exception => "Exception" | .osError => "OSError"
  | .serialException => "SerialException" | .serialTimeoutException => "SerialTimeoutException"
  | .portNotOpenError => "PortNotOpenError" | .runtimeError => "RuntimeError" | .typeError => "TypeError"
  | .attributeError => "AttributeError" | .valueError => "ValueError" | .unicodeError => "UnicodeError"
  | .unicodeDecodeError => "UnicodeDecodeError" | .unicodeEncodeError => "UnicodeEncodeError"
  | .lookupError => "LookupError" | .indexError => "IndexError" | .keyError => "KeyError"
  | .nameError => "NameError" | .unboundLocalError => "UnboundLocalError"
  | .arithmeticError => "ArithmeticError" | .zeroDivisionError => "ZeroDivisionError"
  | .overflowError => "OverflowError" | .assertionError => "AssertionError" | .invalidVersion => "InvalidVersion"

def g3ExcOfKey (k : String) : PyIO.ExcClass :=
  if k == "notopen" then .portNotOpenError
  else if k == "oserror" then .osError
  else if k == "ioerror" then .osError
  else if k == "runtime" then .runtimeError
  else .serialException

def g3ParseReads (t : String) : Option (List PyIO.Rd) :=
  if t = "." then some [] else
  (t.splitOn ";").mapM (fun e =>
    if e.startsWith "X" then some (PyIO.Rd.raise (g3ExcOfKey (e.drop 1).toString))
    else if e.startsWith "L" then (g3DecStr (e.drop 1).toString).map PyIO.Rd.line
    else none)

def g3ParseWrites (t : String) : Option (List PyIO.Wr) :=
  if t = "." then some [] else
  t.toList.mapM (fun c =>
    if c = 'o' then some PyIO.Wr.ok
    else if c = 'x' then some (PyIO.Wr.raise .serialException)
    else if c = 'p' then some (PyIO.Wr.raise .portNotOpenError)
    else if c = 'e' then some (PyIO.Wr.raise .osError)
    else if c = 'i' then some (PyIO.Wr.raise .osError)
    else none)

def g3ParseArg (t : String) : Option Val :=
  if t = "n" then some .none
  else if t = "b0" then some (.bool false)
  else if t = "b1" then some (.bool true)
  else if t.startsWith "i" then (t.drop 1).toString.toInt?.map Val.int
  else if t.startsWith "s" then (g3DecStr (t.drop 1).toString).map Val.str
  else Option.none

/-- the port list the harness installs for `connect` / `find_first` when the search is to find `found` -/
def g3Comports (found : Val) : Val :=
  match found with
  | .str f => .list [.tuple [.str f, .str "EiBotBoard".toList, .str "USB VID:PID=04D8:FD92".toList]]
  | _ => .list []

def g3ShowRecord (res : String) (w0 w : World Gen.EBB3_Obj) : String :=
  let nw := w.port.log.drop w0.port.log.length
  let wr := if nw.isEmpty then "." else ";".intercalate (nw.map g3EncStr)
  let o := w.obj
  " ".intercalate [res, wr, toString (w.port.nread - w0.port.nread),
    (match o.port with | .none => "0" | _ => "1"), g3EncOpt o.err, g3EncOpt o.version, g3EncVer o.version_parsed,
    g3EncOpt o.name, g3EncOpt o.caller, g3EncOpt o.port_name]

def g3RunCalls (fuel : Nat) : List String → World Gen.EBB3_Obj → List String
  | [], _ => []
  | tok :: rest, w =>
    match tok.splitOn ":" with
    | [] => ["BAD"]
    | name :: argToks =>
      match argToks.mapM g3ParseArg with
      | none => ["BAD"]
      | some args =>
        -- the environment of `connect` / `find_first`
        let (args, w1) : List Val × World Gen.EBB3_Obj :=
          match name, args with
          | "connect", [g, c, f, .bool o] =>
            ([g, c], { w with ext := { comports := .ok (g3Comports f), findNamed := f, openOk := o } })
          | "find_first", [f] => ([], { w with ext := { w.ext with comports := .ok (g3Comports f) } })
          | _, a => (a, w)
        match Gen.EBBMotionWrap_dispatch fuel name args w1 with
        | none => ["BAD"]
        | some .fuelOut => ["FUELOUT"]
        | some (.val v w2) => g3ShowRecord ("V" ++ g3ShowVal v) w w2 :: g3RunCalls fuel rest w2
        | some (.exc c w2) => g3ShowRecord ("X" ++ g3ExcName c) w w2 :: g3RunCalls fuel rest w2

def ebb3genRun (toks : List String) : Option String :=
  match toks with
  | fuel :: port :: err :: ver :: vp :: name :: caller :: pn :: reads :: writes :: calls => do
    let fuel ← fuel.toNat?
    let err ← g3DecOpt err
    let ver ← g3DecOpt ver
    let vp ← g3DecVer vp
    let name ← g3DecOpt name
    let caller ← g3DecOpt caller
    let pn ← g3DecOpt pn
    let reads ← g3ParseReads reads
    let writes ← g3ParseWrites writes
    let pv : Val := if port == "1" then Val.port else Val.none
    let obj : Gen.EBB3_Obj :=
      { port_name := pn, port := pv, version := ver, version_parsed := vp, name := name, err := err, caller := caller }
    let w : World Gen.EBB3_Obj := { obj := obj, port := ⟨reads, writes, [], 0⟩ }
    pure (" | ".intercalate (g3RunCalls fuel calls w))
  | _ => none

def ebb3genHandle (toks : List String) : String :=
  match toks with
  | "run" :: rest => (ebb3genRun rest).getD "BAD"
  | ["methods"] => " ".intercalate Gen.EBBMotionWrap_methods
  | _ => "BAD"

end Drv
end Plotink
