import Plotink.Drv.Util
import Plotink.Model.C09
/-! `c09 pit <tol> x y x y …` | `c09 maxd x y …` | `c09 ss <tol> x y …` | `c09 dist ax ay bx by px py` -/
namespace Plotink
namespace Drv
open C09

def c09Pairs : List Rat → Option (List C09.Pt)
  | [] => some []
  | x :: y :: t => (c09Pairs t).map ((x, y) :: ·)
  | _ => none

def c09Rats (toks : List String) : Option (List Rat) :=
  toks.foldr (fun t acc => match parseRat t, acc with
    | some q, some l => some (q :: l)
    | _, _ => none) (some [])

def c09Handle (toks : List String) : String :=
  match toks with
  | "pit" :: tol :: rest =>
    match parseRat tol, (c09Rats rest).bind c09Pairs with
    | some tol, some pts =>
      match pointsInTol pts tol with
      | some true => "True"
      | some false => "False"
      | none => "ASSERT"
    | _, _ => "BAD"
  | "maxd" :: rest =>
    match (c09Rats rest).bind c09Pairs with
    | some pts => match maxDistSq pts with
      | some m => showRat m
      | none => "ASSERT"
    | none => "BAD"
  | "ss" :: tol :: rest =>
    match parseRat tol, (c09Rats rest).bind c09Pairs with
    | some tol, some pts =>
      -- vertices are tagged with their index: the answer is the list of surviving tags
      let v : List (Nat × C09.Pt) := (List.range pts.length).zip pts
      match supersample (fun p : Nat × C09.Pt => p.2) v tol with
      | some r => if r.isEmpty then "-" else ",".intercalate (r.map (fun p => toString p.1))
      | none => "NONE"
    | _, _ => "BAD"
  | ["dist", ax, ay, bx, by_, px, py] =>
    match c09Rats [ax, ay, bx, by_, px, py] with
    | some [ax, ay, bx, by_, px, py] => showRat (distSq (ax, ay) (bx, by_) (px, py))
    | _ => "BAD"
  | _ => "BAD"

end Drv
end Plotink
