import Plotink.Drv.Util
import Plotink.Model.C15
/-! Driver handler for C15 (core only).

```
c15 params                                     -> the literals of `Params.std`
c15 pv <str>                                   -> `None` | dotted release
c15 ge <strA> <strB>                           -> `<versionGe a b> <vle b a>` | `ERR`
c15 conn <P…10> <given> <found> <caller> <opens> <reads> <writes> <ops>     ops: C connect, R request, D disconnect, N new object
c15 leg  <P…10> <reads> <writes> <fn> <args…>
```
strings: comma-separated code points, `-` = empty; optional strings `N` | `S<str>`;
reads: `/`-separated `L<str>` | `E` | `X`, `.` = none; writes: word over `o x`, `.` = none; opens: word over `1 0`.
-/
namespace Plotink
namespace Drv
open C15

namespace C15D

def dstr (s : String) : Str := ((decodeStr s).getD "?").toList
def estr (s : Str) : String := encodeStr (String.ofList s)

def dopt (s : String) : Option Str :=
  if s == "N" then none else some (dstr (s.drop 1).toString)
def eopt : Option Str → String
  | none => "N"
  | some s => "S" ++ estr s

def dreads (s : String) : List Rd :=
  if s == "." then [] else
  (s.splitOn "/").map fun t =>
    if t == "E" then Rd.empty else if t == "X" then Rd.raise else Rd.line (dstr (t.drop 1).toString)

def dwrites (s : String) : List Wr :=
  if s == "." then [] else s.toList.map fun c => if c == 'x' then Wr.raise else Wr.ok

def dopens (s : String) : List Bool :=
  if s == "." then [] else s.toList.map fun c => c == '1'

def dparams (t : List String) : Option (Params × List String) :=
  match t with
  | mv :: r3 :: rl :: nook :: dec :: g1 :: g2 :: g3 :: g4 :: g5 :: rest =>
    some ({ minVersion := dstr mv, retry3 := r3.toNat!, retryL := rl.toNat!,
            noOk := if nook == "." then [] else (nook.splitOn "|").map dstr,
            decodeRetry := dec == "1",
            gateNickQuery := dstr g1, gateNickWrite := dstr g2, gateReboot := dstr g3,
            gateVoltage := dstr g4, gateServo := dstr g5 }, rest)
  | _ => none

def eparams (P : Params) : String :=
  " ".intercalate [estr P.minVersion, toString P.retry3, toString P.retryL,
    (if P.noOk.isEmpty then "." else "|".intercalate (P.noOk.map estr)),
    (if P.decodeRetry then "1" else "0"),
    estr P.gateNickQuery, estr P.gateNickWrite, estr P.gateReboot, estr P.gateVoltage, estr P.gateServo]

def eexc : PyExc → String
  | .typeError => "EXC:TypeError"
  | .valueError => "EXC:ValueError"
  | .serialException => "EXC:SerialException"
  | .versionSyntax => "EXC:versionSyntax"

def erel (l : List Nat) : String := ".".intercalate (l.map toString)

def ewritten (w : List Str) : String := if w.isEmpty then "." else "/".intercalate (w.map estr)

def estate (st : St) : String :=
  s!"port={if st.port then 1 else 0} err={eopt st.err} version={eopt st.version} vparsed={match st.vparsed with | none => "N" | some v => erel v} name={eopt st.name} caller={eopt st.caller} portName={eopt st.portName}"

/-- run the ops on one object and one script -/
def runOps (P : Params) (given found caller : Option Str) : List Char → St → Io → List String → List String × St × Io
  | [], st, io, acc => (acc.reverse, st, io)
  | op :: ops, st, io, acc =>
    if op == 'C' then
      let out := connect P st given found caller io
      let r := match out.res with
        | .ok true => "True"
        | .ok false => "False"
        | .error e => eexc e
      runOps P given found caller ops out.st out.io (s!"{r}:{out.io.written.length}" :: acc)
    else if op == 'D' then      -- `disconnect()` (whatever `close()` does)
      runOps P given found caller ops (disconnect st) io (s!"disc:{io.written.length}" :: acc)
    else if op == 'N' then      -- a new `EBB3()` object on the same device script
      runOps P given found caller ops St.fresh io (s!"new:{io.written.length}" :: acc)
    else
      match requestWhenBlocked st io with
      | some (st', io') => runOps P given found caller ops st' io' (s!"blocked:{io'.written.length}" :: acc)
      | none => ((s!"UNMODELLED:{io.written.length}" :: acc).reverse, st, io)

def elval : Except PyExc LVal → String
  | .error e => eexc e
  | .ok .none_ => "None"
  | .ok (.bool_ b) => if b then "True" else "False"
  | .ok (.str s) => "S" ++ estr s

def elio (io0 io : Io) : String :=
  s!"{ewritten io.written} r={io0.reads.length - io.reads.length} w={io0.writes.length - io.writes.length}"

end C15D
open C15D

def c15Handle (toks : List String) : String :=
  match toks with
  | ["params"] => eparams Params.std
  | ["pv", s] => match parseVersion (dstr s) with | none => "None" | some l => erel l
  | ["ge", a, b] =>
    match parseVersion (dstr a), parseVersion (dstr b) with
    | some x, some y => s!"{versionGe x y} {vle y x}"
    | _, _ => "ERR"
  | "conn" :: rest =>
    match dparams rest with
    | some (P, [given, found, caller, opens, reads, writes, ops]) =>
      let io0 : Io := ⟨dopens opens, dreads reads, dwrites writes, []⟩
      let (rs, st, io) := runOps P (dopt given) (dopt found) (dopt caller) ops.toList St.fresh io0 []
      s!"{";".intercalate rs} | {estate st} | {elio io0 io} o={io0.opens.length - io.opens.length}"
    | _ => "BAD"
  | "leg" :: rest =>
    match dparams rest with
    | some (P, reads :: writes :: fn :: args) =>
      let io0 : Io := ⟨[], dreads reads, dwrites writes, []⟩
      let r : Option (Io × String) := match fn, args with
        | "minv", [thr] =>
          let (io, v) := lminVersion P io0 (dstr thr)
          some (io, match v with
            | .error e => eexc e
            | .ok none => "None"
            | .ok (some b) => if b then "True" else "False")
        | "qnick", [vb] => let (io, v) := lqueryNickname P io0 (vb == "1"); some (io, elval v)
        | "wnick", [n] => let (io, v) := lwriteNickname P io0 (dstr n); some (io, elval v)
        | "reboot", [] => let (io, v) := lreboot P io0; some (io, elval v)
        | "volt", [] => let (io, v) := lqueryVoltage P io0; some (io, elval v)
        | "servo", [t, s] =>
          let (io, v) := lservoTimeout P io0 t.toInt! (if s == "N" then none else some s.toInt!)
          some (io, elval v)
        | _, _ => none
      match r with
      | some (io, v) => s!"{v} | {elio io0 io}"
      | none => "BAD"
    | _ => "BAD"
  | _ => "BAD"

end Drv
end Plotink
