import Plotink.Model.Ebb3Params
/-!
Driver handler of the EBB3 model.

* `ebb3 run <port> <err> <version> <vparsed> <name> <caller> <portname> <reads> <writes> <call>…`
  runs a history on a `Script`; answer: one record per call, separated by ` | `:
  `<res> <written> <nreads> <port> <err> <version> <vparsed> <name> <caller> <portname>`.
  Strings are comma-separated code points (`-` = empty string), `~` = `None`.
  reads: `;`-separated `L<str>` / `X`, or `.`; writes: a word over `o` / `x`, or `.`;
  call: `method:arg:…` with `i<int>`, `n`, `s<str>`, `b0`/`b1`.
* `ebb3 methods` — the table: `name:guard:kind` for every method of `Method.all`.
* `ebb3 params` — the extracted constants.
* `ebb3 pyint <base> <str>`, `ebb3 name <str>`, `ebb3 strip <str>` — primitives.
-/
namespace Plotink
namespace Drv
open Ebb3

def e3DecStr (s : String) : Option Str :=
  if s = "-" then some [] else
  (s.splitOn ",").foldr (fun t acc => match t.toNat?, acc with
    | some n, some l => some (Char.ofNat n :: l)
    | _, _ => none) (some [])

def e3EncStr (s : Str) : String :=
  if s.isEmpty then "-" else ",".intercalate (s.map (fun c => toString c.toNat))

def e3DecOpt (s : String) : Option (Option Str) :=
  if s = "~" then some none else (e3DecStr s).map some

def e3EncOpt : Option Str → String
  | none => "~"
  | some s => e3EncStr s

def e3DecVer (s : String) : Option (Option (List Nat)) :=
  if s = "~" then some none else
  ((s.splitOn ".").foldr (fun t acc => match t.toNat?, acc with
    | some n, some l => some (n :: l)
    | _, _ => none) (some [])).map some

def e3EncVer : Option (List Nat) → String
  | none => "~"
  | some l => ".".intercalate (l.map toString)

partial def e3ShowVal : Val → String
  | .none => "None"
  | .bool true => "True"
  | .bool false => "False"
  | .int z => toString z
  | .str s => "s" ++ e3EncStr s
  | .pair a b => "(" ++ e3ShowVal a ++ "," ++ e3ShowVal b ++ ")"

def e3ShowExc : PyExc → String
  | .attributeError => "AttributeError" | .valueError => "ValueError" | .indexError => "IndexError"
  | .typeError => "TypeError" | .keyError => "KeyError" | .overflowError => "OverflowError"
  | .invalidVersion => "InvalidVersion" | .serialException => "SerialException"

inductive E3Arg where
  | none | int (z : Int) | str (s : Str) | bool (b : Bool)

def e3ParseArg (t : String) : Option E3Arg :=
  if t = "n" then some .none
  else if t = "b0" then some (.bool false)
  else if t = "b1" then some (.bool true)
  else if t.startsWith "i" then (t.drop 1).toString.toInt?.map .int
  else if t.startsWith "s" then (e3DecStr (t.drop 1).toString).map .str
  else Option.none

def e3OptStr : E3Arg → Option (Option Str)
  | .none => some Option.none | .str s => some (some s) | _ => Option.none
def e3OptInt : E3Arg → Option (Option Int)
  | .none => some Option.none | .int z => some (some z) | _ => Option.none

def e3ParseCall (tok : String) : Option Call :=
  match tok.splitOn ":" with
  | [] => none
  | name :: rest =>
    match rest.mapM e3ParseArg with
    | none => none
    | some args =>
      match name, args with
      | "find_first", [a] => (e3OptStr a).map .find_first
      | "reboot", [] => some .reboot
      | "bootload", [] => some .bootload
      | "record_error", [.str s] => some (.record_error s)
      | "parse_version", [.str s] => some (.parse_version s)
      | "query_nickname", [] => some .query_nickname
      | "write_nickname", [a] => (e3OptStr a).map .write_nickname
      | "disconnect", [] => some .disconnect
      | "connect", [g, c, f, .bool o] => do
          let g ← e3OptStr g; let c ← e3OptStr c; let f ← e3OptStr f
          pure (.connect g c f o)
      | "min_version", [.str s] => some (.min_version s)
      | "command", [a] => (e3OptStr a).map .command
      | "query", [a] => (e3OptStr a).map .query
      | "query_statusbyte", [] => some .query_statusbyte
      | "var_write", [.int a, .int b] => some (.var_write a b)
      | "var_read", [.int a] => some (.var_read a)
      | "var_write_int32", [.int a, .int b] => some (.var_write_int32 a b)
      | "var_read_int32", [.int a] => some (.var_read_int32 a)
      | "timed_pause", [.int a] => some (.timed_pause a)
      | "xy_move", [.int a, .int b, .int c] => some (.xy_move a b c)
      | "abs_move", [.int r, a, b] => do
          let a ← e3OptInt a; let b ← e3OptInt b
          pure (.abs_move r a b)
      | "motors_disable", [] => some .motors_disable
      | "motors_enable", [.int a, .int b] => some (.motors_enable a b)
      | "motors_query_enabled", [] => some .motors_query_enabled
      | "query_steps", [] => some .query_steps
      | "clear_steps", [] => some .clear_steps
      | "clear_accumulators", [] => some .clear_accumulators
      | "pen_lower", [.int d, p] => (e3OptInt p).map (.pen_lower d)
      | "pen_raise", [.int d, p] => (e3OptInt p).map (.pen_raise d)
      | "dio_b_config", [.int a, .int b, .int c] => some (.dio_b_config a b c)
      | "dio_b_set", [.int a, .int b] => some (.dio_b_set a b)
      | "dio_b_read", [.int a] => some (.dio_b_read a)
      | "pen_pos_down", [.int a] => some (.pen_pos_down a)
      | "pen_pos_up", [.int a] => some (.pen_pos_up a)
      | "pen_rate_down", [.int a] => some (.pen_rate_down a)
      | "pen_rate_up", [.int a] => some (.pen_rate_up a)
      | "servo_timeout", [.int m, s] => (e3OptInt s).map (.servo_timeout m)
      | "query_voltage", [t] => (e3OptInt t).map .query_voltage
      | "query_current", [] => some .query_current
      | _, _ => none

def e3ParseReads (t : String) : Option (List ReadEv) :=
  if t = "." then some [] else
  (t.splitOn ";").mapM (fun e =>
    if e = "X" then some ReadEv.raise
    else if e.startsWith "L" then (e3DecStr (e.drop 1).toString).map ReadEv.line
    else none)

def e3ParseWrites (t : String) : Option (List WriteEv) :=
  if t = "." then some [] else
  t.toList.mapM (fun c => if c = 'o' then some WriteEv.ok else if c = 'x' then some WriteEv.raise else none)

def e3MethodName (m : Method) : String :=
  ((reprStr m).splitOn ".").getLast!

def e3ShowOutcome (o : Outcome Script) : String :=
  let res := match o.res with
    | .ok v => "V" ++ e3ShowVal v
    | .error e => "X" ++ e3ShowExc e
  let wr := if o.written.isEmpty then "." else ";".intercalate (o.written.map e3EncStr)
  let st := o.world.st
  " ".intercalate [res, wr, toString o.reads, (if st.port then "1" else "0"), e3EncOpt st.err,
    e3EncOpt st.version, e3EncVer st.versionParsed, e3EncOpt st.name, e3EncOpt st.caller,
    e3EncOpt st.portName]

def ebb3Run (toks : List String) : Option String :=
  match toks with
  | port :: err :: ver :: vp :: name :: caller :: pn :: reads :: writes :: calls => do
    let err ← e3DecOpt err
    let ver ← e3DecOpt ver
    let vp ← e3DecVer vp
    let name ← e3DecOpt name
    let caller ← e3DecOpt caller
    let pn ← e3DecOpt pn
    let reads ← e3ParseReads reads
    let writes ← e3ParseWrites writes
    let calls ← calls.mapM e3ParseCall
    let st : St := ⟨port == "1", err, ver, vp, name, caller, pn⟩
    let w : World Script := ⟨st, ⟨reads, writes⟩, [], 0⟩
    let outs := runCalls srcParams scriptDev calls w
    pure (" | ".intercalate (outs.map e3ShowOutcome))
  | _ => none

def ebb3Handle (toks : List String) : String :=
  match toks with
  | "run" :: rest => (ebb3Run rest).getD "BAD"
  | ["methods"] =>
    " ".intercalate (Method.all.map (fun m =>
      e3MethodName m ++ ":" ++ (match guardOf m with | some v => e3ShowVal v | none => "-") ++ ":" ++
      (if m.isRequest then "request" else if m.isHelper then "helper" else "connection")))
  | ["params"] =>
    let P := srcParams
    " ".intercalate [toString P.retryCmd, toString P.retryQry,
      ";".intercalate (P.ignoreCmd.map e3EncStr), ";".intercalate (P.ignoreQry.map e3EncStr),
      toString P.pauseCmp, toString P.pauseChunk, e3EncStr P.minVersion, toString P.vThreshold]
  | ["pyint", base, s] =>
    (match e3DecStr s with
     | some s => (match pyInt base.toNat! s with | some z => toString z | none => "E")
     | none => "BAD")
  | ["name", s] =>
    (match e3DecStr s with
     | some s => (match cmdName (strip s) with | .ok n => e3EncStr n | .error e => "X" ++ e3ShowExc e)
     | none => "BAD")
  | ["strip", s] => (match e3DecStr s with | some s => e3EncStr (strip s) | none => "BAD")
  | _ => "BAD"

end Drv
end Plotink
