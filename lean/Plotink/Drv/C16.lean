import Plotink.Drv.Util
import Plotink.Model.C16
/-! Driver handler for C16 (core only).

```
c16 recv   <board> <bytes>            -> <board'> <reply-bytes>           (the board model: co-simulation)
c16 run    <py> <board> <op…>         -> <val> <py'> <board'> <sent>      (one modelled method)
c16 runops <py> <board> <op…> / <op…> -> <val/val/…> <py'> <board'> <sent>
c16 spec   <pyname> <board> <op…> / … -> <val/val/…> <pyname'> <board'>   (Spec.steps)
c16 wf     <board>                    -> True | False
```
board  = `v0,…,v31;name;m1;m2;mode;auto` (name as code points, `-` empty; booleans 0/1)
py     = `connected;err;name` (name `N` = None, else `s` + code points)
bytes  = code points, `-` empty;   sent = lines joined by `|`, oldest first (`~` when none)
op     = `vw v i | vr i | w32 v i | r32 i | me r1 r2 | mq | wn <str> | qn` -/
namespace Plotink
namespace Drv
open C16

def c16Str (s : String) : Option C16.Str := (decodeStr s).map String.toList
def c16Show (s : C16.Str) : String := encodeStr (String.ofList s)

def c16Bool (s : String) : Option Bool := if s = "1" then some true else if s = "0" then some false else none
def c16ShowBool (b : Bool) : String := if b then "1" else "0"

def c16Nats (s : String) : Option (List Nat) :=
  if s = "-" then some [] else
  (s.splitOn ",").foldr (fun t acc => match t.toNat?, acc with
    | some n, some l => some (n :: l)
    | _, _ => none) (some [])

def c16Board (s : String) : Option Board :=
  match s.splitOn ";" with
  | [vs, nm, a, b, md, au] =>
    match c16Nats vs, c16Str nm, c16Bool a, c16Bool b, md.toNat?, c16Bool au with
    | some vars, some name, some m1, some m2, some mode, some auto => some ⟨vars, name, m1, m2, mode, auto⟩
    | _, _, _, _, _, _ => none
  | _ => none

def c16ShowBoard (b : Board) : String :=
  (if b.vars.isEmpty then "-" else ",".intercalate (b.vars.map toString)) ++ ";" ++ c16Show b.name ++ ";" ++
    c16ShowBool b.m1 ++ ";" ++ c16ShowBool b.m2 ++ ";" ++ toString b.mode ++ ";" ++ c16ShowBool b.autoEnable

def c16Name (s : String) : Option (Option C16.Str) :=
  if s = "N" then some none
  else if s.startsWith "s" then (c16Str (s.drop 1).toString).map some
  else none

def c16ShowName : Option C16.Str → String
  | none => "N"
  | some n => "s" ++ c16Show n

def c16Py (s : String) : Option Py :=
  match s.splitOn ";" with
  | [c, e, n] =>
    match c16Bool c, c16Bool e, c16Name n with
    | some c, some e, some n => some ⟨c, e, n⟩
    | _, _, _ => none
  | _ => none

def c16ShowPy (p : Py) : String :=
  c16ShowBool p.connected ++ ";" ++ c16ShowBool p.err ++ ";" ++ c16ShowName p.name

def c16Op (toks : List String) : Option Op :=
  match toks with
  | ["vw", v, i] => do some (.varWrite (← v.toInt?) (← i.toInt?))
  | ["vr", i] => do some (.varRead (← i.toInt?))
  | ["w32", v, i] => do some (.writeInt32 (← v.toInt?) (← i.toInt?))
  | ["r32", i] => do some (.readInt32 (← i.toInt?))
  | ["me", a, b] => do some (.motorsEnable (← a.toInt?) (← b.toInt?))
  | ["mq"] => some .motorsQuery
  | ["wn", s] => do some (.writeNick (← c16Str s))
  | ["qn"] => some .queryNick
  | _ => none

/-- split a token list at `/` -/
def c16SplitOps : List String → List (List String)
  | [] => [[]]
  | t :: ts =>
    if t = "/" then [] :: c16SplitOps ts
    else match c16SplitOps ts with
      | h :: r => (t :: h) :: r
      | [] => [[t]]

def c16Ops (toks : List String) : Option (List Op) :=
  if toks.isEmpty then some [] else
  (c16SplitOps toks).foldr (fun o acc => match c16Op o, acc with
    | some op, some l => some (op :: l)
    | _, _ => none) (some [])

def c16ShowVal : Val → String
  | .none => "None"
  | .bool b => if b then "True" else "False"
  | .int z => toString z
  | .pair a b => "(" ++ toString a ++ "," ++ toString b ++ ")"

def c16ShowExc : Exc → String
  | .indexError => "EXC:IndexError"
  | .valueError => "EXC:ValueError"
  | .keyError => "EXC:KeyError"
  | .typeError => "EXC:TypeError"
  | .overflowError => "EXC:OverflowError"

def c16ShowSent (l : List C16.Str) : String :=
  if l.isEmpty then "~" else "|".intercalate (l.reverse.map c16Show)

def c16ShowVals (l : List Val) : String := if l.isEmpty then "~" else "/".intercalate (l.map c16ShowVal)

def c16Handle (toks : List String) : String :=
  match toks with
  | ["recv", b, bytes] =>
    match c16Board b, c16Str bytes with
    | some b, some bytes =>
      let (b', r) := boardRecv b bytes
      c16ShowBoard b' ++ " " ++ c16Show r
    | _, _ => "BAD"
  | ["wf", b] =>
    match c16Board b with
    | some b => if decide b.WF then "True" else "False"
    | none => "BAD"
  | "run" :: p :: b :: op =>
    match c16Py p, c16Board b, c16Op op with
    | some p, some b, some op =>
      match runOp ⟨p, b, []⟩ op with
      | .ok (v, w) => c16ShowVal v ++ " " ++ c16ShowPy w.py ++ " " ++ c16ShowBoard w.board ++ " " ++ c16ShowSent w.sent
      | .error e => c16ShowExc e
    | _, _, _ => "BAD"
  | "runops" :: p :: b :: ops =>
    match c16Py p, c16Board b, c16Ops ops with
    | some p, some b, some ops =>
      match runOps ⟨p, b, []⟩ ops with
      | .ok (vs, w) => c16ShowVals vs ++ " " ++ c16ShowPy w.py ++ " " ++ c16ShowBoard w.board ++ " " ++ c16ShowSent w.sent
      | .error e => c16ShowExc e
    | _, _, _ => "BAD"
  | "spec" :: n :: b :: ops =>
    match c16Name n, c16Board b, c16Ops ops with
    | some n, some b, some ops =>
      let (vs, s) := Spec.steps ⟨b, n⟩ ops
      c16ShowVals vs ++ " " ++ c16ShowName s.pyName ++ " " ++ c16ShowBoard s.board
    | _, _, _ => "BAD"
  | _ => "BAD"

end Drv
end Plotink
